//! C47 — relay resource limits hold (E2: explicit-state BFS over histories of handler events and
//! connection closures fed to the real `relay::Behaviour` through `NetworkBehaviour`).
//!
//! The behaviour is driven standalone. Five connections exist from the start (P1 x2, P2 x2,
//! P3 x1). The connection handlers are *modelled* (event level): the harness produces the
//! handler events the production handler can produce in the handler state implied by the
//! history, and consumes the behaviour's commands (`ToSwarm::NotifyHandler`):
//!
//!   handler state per connection: `active` (handler.active_reservation), `pending`
//!   (handler.reservation_request_future; a new command replaces the old future, as in
//!   `Handler::on_behaviour_event`), circuit tasks (STOP negotiation on the destination
//!   connection; deny / accept / drive on the source connection). Tasks die with their
//!   connection; tasks on the *other* connection of a circuit survive and may still report
//!   (stale events), exactly as separate handlers would.
//!
//! The request objects inside the events are real: `ReservationReq` / `CircuitReq` come out of
//! the production `handle_inbound_request` run over an in-memory `Stream` carrying a RESERVE /
//! CONNECT message.
//!
//! Oracle = the four limits of the statement in every reached state, with the relay's own
//! notion of "holding": a reservation is held on a connection from the `AcceptReservationReq`
//! command (the behaviour marks it `Active` there) while the accept is in flight or the
//! handler's reservation is active, until it times out, the accept fails / is replaced by a
//! deny, or the connection closes; a circuit is held from `NegotiateOutboundConnect` (the
//! behaviour inserts it into its tracker there) until the STOP negotiation fails, it is
//! denied, accepting fails, it closes, or either of its two connections closes. The weaker
//! "handler truth" counts (active reservations only; driven circuits only) are reported in the
//! message for comparison.
//! Limits: max_reservations 2, per peer 1, max_circuits 2, per peer 1; no rate limiters.

use crate::streams::stream_pair;
use bytes::Bytes;
use either::Either;
use futures::AsyncWriteExt;
use kit::ids::{addr, peer, pname};
use kit::pb::W;
use kit::tasks::run_ready;
use libp2p_core::ConnectedPoint;
use libp2p_identity::PeerId;
use libp2p_relay as relay;
use libp2p_swarm::behaviour::{ConnectionClosed, ConnectionEstablished};
use libp2p_swarm::{ConnectionId, FromSwarm, NetworkBehaviour, NotifyHandler, ToSwarm};
use mc::bfs::{self, System};
use mc::{json, Ctx, Meta, Outcome};
use relay::verif_proto_a::{handle_inbound_request, stop_error_status, CircuitReq, HandlerEvent as HEv, HandlerIn as HIn, ReservationReq};
use serde::{Deserialize, Serialize};
use std::cell::RefCell;
use std::task::{Context, Poll};
use std::time::Duration;

pub const META: Meta = Meta {
    level: "model_checking",
    rule: "BFS over all histories (depth 6 quick / 8 thorough) of {reservation request on connection c, pending accept completes ok/fails, reservation times out, circuit request from connection c to peer p, circuit stage outcome ok/fail (STOP negotiation, deny, accept, close), connection closed} over 5 pre-established connections (P1 x2, P2 x2, P3 x1) against the real relay::Behaviour with limits (reservations / per peer, circuits / per peer) = (2/1, 2/1) and (2/2, 2/2) — the second so that one peer can hold reservations and circuits over two connections; states deduplicated on the full handler-model + circuit-table state (circuit ids by admission rank) + a mirror of the behaviour's reservation map. Non-trivial = states in which at least one reservation or circuit is held.",
    explanation: "Every transition executes the real Behaviour (on_connection_handler_event / on_swarm_event / poll); commands are consumed by an event-level model of the production handler; the four limits are checked in every reached state; an un-deduplicated DFS to a smaller depth re-checks all paths without merging.",
    assumptions: &["handlers are modelled at event level from the production handler's code (events only in handler states that can produce them); whether a reservation time-out can be reported while an accept is in flight is taken from a probe of the production handler at the start of the run", "deny replies complete immediately (they only generate events)", "circuit requests to a peer for which the behaviour tracks more than one active reservation are not explored (destination connection chosen by HashMap order)", "5 connections, 3 peers, tiny limits (small-scope hypothesis)", "no rate limiters"],
};

/// limit configurations explored: [max_reservations, per peer, max_circuits, per peer].
/// The second one lets one peer hold reservations on two connections, so that "reservations"
/// and "peers with a reservation" differ.
const CONFIGS: [[usize; 4]; 2] = [[2, 1, 2, 1], [2, 2, 2, 2]];
const NCONN: usize = 5;
const CONN_PEER: [u8; NCONN] = [1, 1, 2, 2, 3];
const MAX_RECORDS: usize = 4;

#[derive(Clone, Debug, Serialize, Deserialize, PartialEq)]
pub enum Act {
    /// RESERVE arrives on connection c
    ResvReq(usize),
    /// the pending accept future of connection c completes (ok / io failure)
    ResvDone(usize, bool),
    /// the active reservation of connection c expires
    ResvTimeout(usize),
    /// CONNECT to peer p arrives on connection c
    CircReq(usize, u8),
    /// the current stage of circuit record k (admission order) completes ok / fails
    CircStep(usize, bool),
    /// connection c closes
    Close(usize),
}

enum Pending {
    Accepting(#[allow(dead_code)] ReservationReq),
}

enum Stage {
    /// STOP negotiation running on the destination connection (None: outcome being reported)
    Negotiating(Option<CircuitReq>),
    /// deny reply (after failed negotiation) being written on the source connection; carries
    /// the `CircuitReqDenied` event the handler will report on success
    Denying(CircuitReq, HEv),
    /// accept reply being written on the source connection
    Accepting,
    /// CopyFuture running on the source connection
    Driving,
}
impl Stage {
    fn tag(&self) -> u8 {
        match self {
            Stage::Negotiating(_) => 0,
            Stage::Denying(..) => 1,
            Stage::Accepting => 2,
            Stage::Driving => 3,
        }
    }
    fn on_dst(&self) -> bool {
        matches!(self, Stage::Negotiating(_))
    }
}

struct Circ {
    cid: relay::CircuitId,
    src: usize,
    dst: usize,
    stage: Stage,
    /// oracle: does the relay hold this circuit?
    held: bool,
}

#[derive(Default)]
struct Conn {
    open: bool,
    active: bool,
    pending: Option<Pending>,
    /// mirror of the behaviour's `connections[peer][conn]`: None = no entry, Some(active)
    mirror: Option<bool>,
}

#[derive(Default, Clone, Debug)]
pub struct Counters {
    pub accept_resv: u64,
    pub deny_resv: u64,
    pub negotiate: u64,
    pub deny_circ_direct: u64,
    pub deny_circ_after_fail: u64,
    pub drive: u64,
    pub dropped_cmds: u64,
    pub relay_events: u64,
    pub stale_events: u64,
}
thread_local! {
    pub static CNT: RefCell<Counters> = RefCell::new(Counters::default());
}
fn cnt(f: impl FnOnce(&mut Counters)) {
    CNT.with(|c| f(&mut c.borrow_mut()))
}

/// calibration against the production handler (see c47_probe): may a reservation time-out be
/// reported while an accept is in flight? Unset (e.g. on replay) = yes (the permissive reading).
static TIMEOUT_WHILE_ACCEPTING: std::sync::OnceLock<bool> = std::sync::OnceLock::new();
fn timeout_while_accepting() -> bool {
    *TIMEOUT_WHILE_ACCEPTING.get().unwrap_or(&true)
}

pub struct Sys {
    lim: [usize; 4],
    beh: relay::Behaviour,
    conns: Vec<Conn>,
    circs: Vec<Circ>,
    /// index into `circs` of the circuit admitted by the last step (signature classification)
    newest: Option<relay::CircuitId>,
}

fn conn_id(c: usize) -> ConnectionId {
    ConnectionId::new_unchecked(c + 1)
}
fn conn_idx(id: ConnectionId) -> Option<usize> {
    (0..NCONN).find(|c| conn_id(*c) == id)
}
fn endpoint(c: usize) -> ConnectedPoint {
    ConnectedPoint::Listener { local_addr: addr("/ip4/10.0.0.100/tcp/4001"), send_back_addr: addr(&format!("/ip4/10.0.0.{}/tcp/{}", CONN_PEER[c], 5000 + c)) }
}

const RES_DUR: Duration = Duration::from_secs(3600);
const CIRC_DUR: Duration = Duration::from_secs(120);

/// a real inbound HOP request, parsed by the production code from an in-memory stream
fn inbound_request(msg: W) -> Either<ReservationReq, CircuitReq> {
    let (mut client, server) = stream_pair();
    let frame = msg.framed();
    run_ready(async { client.write_all(&frame).await.and(client.flush().await) }, 16).expect("write completes").expect("write ok");
    let r = run_ready(handle_inbound_request(server, RES_DUR, CIRC_DUR, 1 << 17), 32).expect("request parsed without waiting");
    drop(client);
    r.expect("well-formed HOP request")
}
fn reserve_req() -> ReservationReq {
    match inbound_request(W::new().uint(1, 0)) {
        Either::Left(r) => r,
        Either::Right(_) => panic!("RESERVE parsed as CONNECT"),
    }
}
fn connect_req(dst: PeerId) -> CircuitReq {
    match inbound_request(W::new().uint(1, 1).msg(2, &W::new().bytes(1, &dst.to_bytes()))) {
        Either::Right(r) => r,
        Either::Left(_) => panic!("CONNECT parsed as RESERVE"),
    }
}

impl Sys {
    pub fn with(lim: [usize; 4]) -> Self {
        let cfg = relay::Config {
            max_reservations: lim[0],
            max_reservations_per_peer: lim[1],
            reservation_duration: RES_DUR,
            reservation_rate_limiters: Vec::new(),
            max_circuits: lim[2],
            max_circuits_per_peer: lim[3],
            max_circuit_duration: CIRC_DUR,
            max_circuit_bytes: 1 << 17,
            circuit_src_rate_limiters: Vec::new(),
        };
        let mut beh = relay::Behaviour::new(peer(0), cfg);
        let mut conns = Vec::new();
        for c in 0..NCONN {
            let ep = endpoint(c);
            let (local, remote) = match &ep {
                ConnectedPoint::Listener { local_addr, send_back_addr } => (local_addr.clone(), send_back_addr.clone()),
                _ => unreachable!(),
            };
            let h = beh.handle_established_inbound_connection(conn_id(c), peer(CONN_PEER[c]), &local, &remote);
            assert!(matches!(h, Ok(Either::Left(_))), "relay handler expected");
            let other = (0..c).filter(|o| CONN_PEER[*o] == CONN_PEER[c]).count();
            beh.on_swarm_event(FromSwarm::ConnectionEstablished(ConnectionEstablished { peer_id: peer(CONN_PEER[c]), connection_id: conn_id(c), endpoint: &ep, failed_addresses: &[], other_established: other }));
            conns.push(Conn { open: true, active: false, pending: None, mirror: Some(false) });
        }
        let mut s = Sys { lim, beh, conns, circs: Vec::new(), newest: None };
        s.drain().expect("no output expected initially");
        s
    }

    fn feed(&mut self, c: usize, ev: HEv) {
        self.beh.on_connection_handler_event(peer(CONN_PEER[c]), conn_id(c), Either::Left(ev));
    }

    /// consume everything the behaviour wants to emit; commands go to the handler models
    fn drain(&mut self) -> Result<(), String> {
        let w = futures::task::noop_waker();
        let mut cx = Context::from_waker(&w);
        for _ in 0..64 {
            let out = match self.beh.poll(&mut cx) {
                Poll::Pending => return Ok(()),
                Poll::Ready(o) => o,
            };
            match out {
                ToSwarm::GenerateEvent(_) => cnt(|c| c.relay_events += 1),
                ToSwarm::NotifyHandler { peer_id, handler, event } => {
                    let NotifyHandler::One(id) = handler else { return Err("harness-unexpected-output :: NotifyHandler::Any".into()) };
                    let Some(c) = conn_idx(id) else { return Err(format!("command-to-unknown-connection :: {id:?}")) };
                    let ev = match event {
                        Either::Left(e) => e,
                        Either::Right(v) => match v {},
                    };
                    if peer(CONN_PEER[c]) != peer_id {
                        // NegotiateOutboundConnect is addressed with the *source* peer id and the
                        // destination's connection id; the swarm routes by connection id.
                        if !matches!(ev, HIn::NegotiateOutboundConnect { .. }) {
                            return Err(format!("command-peer-mismatch :: command {ev:?} for {} on a connection of P{}", pname(&peer_id), CONN_PEER[c]));
                        }
                    }
                    self.command(c, ev);
                }
                other => return Err(format!("harness-unexpected-output :: {other:?}")),
            }
        }
        Err("harness-drain-overflow :: behaviour produced more than 64 outputs in one step".into())
    }

    /// `Handler::on_behaviour_event` of the handler model of connection c
    fn command(&mut self, c: usize, ev: HIn) {
        if !self.conns[c].open {
            // the swarm drops notifications for closed connections
            cnt(|k| k.dropped_cmds += 1);
            if let HIn::NegotiateOutboundConnect { circuit_id, .. } | HIn::AcceptAndDriveCircuit { circuit_id, .. } | HIn::DenyCircuitReq { circuit_id: Some(circuit_id), .. } = &ev {
                let cid = *circuit_id;
                self.circs.retain(|x| x.cid != cid);
            }
            return;
        }
        match ev {
            HIn::AcceptReservationReq { inbound_reservation_req, .. } => {
                cnt(|k| k.accept_resv += 1);
                self.conns[c].pending = Some(Pending::Accepting(inbound_reservation_req));
                self.conns[c].mirror = Some(true);
            }
            HIn::DenyReservationReq { inbound_reservation_req, status } => {
                cnt(|k| k.deny_resv += 1);
                // replaces whatever future was pending; the deny reply completes at once
                drop(inbound_reservation_req);
                self.conns[c].pending = None;
                self.feed(c, HEv::ReservationReqDenied { status });
            }
            HIn::DenyCircuitReq { circuit_id, inbound_circuit_req, status } => {
                let dst_peer_id = inbound_circuit_req.dst();
                match circuit_id {
                    None => {
                        cnt(|k| k.deny_circ_direct += 1);
                        drop(inbound_circuit_req);
                        self.feed(c, HEv::CircuitReqDenied { circuit_id: None, dst_peer_id, status });
                    }
                    Some(cid) => {
                        cnt(|k| k.deny_circ_after_fail += 1);
                        match self.circs.iter_mut().find(|x| x.cid == cid) {
                            Some(rec) => {
                                rec.stage = Stage::Denying(inbound_circuit_req, HEv::CircuitReqDenied { circuit_id: Some(cid), dst_peer_id, status });
                            }
                            None => {
                                // record already gone (its connections closed): reply at once
                                self.feed(c, HEv::CircuitReqDenied { circuit_id: Some(cid), dst_peer_id, status });
                            }
                        }
                    }
                }
            }
            HIn::NegotiateOutboundConnect { circuit_id, inbound_circuit_req, src_peer_id: _, src_connection_id } => {
                cnt(|k| k.negotiate += 1);
                let src = conn_idx(src_connection_id).expect("known source connection");
                self.circs.push(Circ { cid: circuit_id, src, dst: c, stage: Stage::Negotiating(Some(inbound_circuit_req)), held: true });
                self.newest = Some(circuit_id);
            }
            HIn::AcceptAndDriveCircuit { circuit_id, inbound_circuit_req, dst_stream, .. } => {
                cnt(|k| k.drive += 1);
                drop((inbound_circuit_req, dst_stream));
                if let Some(rec) = self.circs.iter_mut().find(|x| x.cid == circuit_id) {
                    rec.stage = Stage::Accepting;
                }
            }
            HIn::SetStatus { .. } => {}
        }
    }

    fn peer_conns(p: u8) -> impl Iterator<Item = usize> {
        (0..NCONN).filter(move |c| CONN_PEER[*c] == p)
    }
    fn held_res(&self, c: usize) -> bool {
        self.conns[c].open && (self.conns[c].active || self.conns[c].pending.is_some())
    }
    fn circ_involves(&self, x: &Circ, p: u8) -> bool {
        CONN_PEER[x.src] == p || CONN_PEER[x.dst] == p
    }

    #[allow(non_snake_case)]
    fn limits(&self) -> Result<(), String> {
        let [MAX_RES, MAX_RES_PEER, MAX_CIRC, MAX_CIRC_PEER] = self.lim;
        let total_res = (0..NCONN).filter(|c| self.held_res(*c)).count();
        for p in 1..=3u8 {
            let held = Self::peer_conns(p).filter(|c| self.held_res(*c)).count();
            if held > MAX_RES_PEER {
                let tracked = Self::peer_conns(p).filter(|c| self.conns[*c].mirror == Some(true)).count();
                let active = Self::peer_conns(p).filter(|c| self.conns[*c].open && self.conns[*c].active).count();
                return Err(format!("reservations-per-peer-exceeded held={held} limit={MAX_RES_PEER} behaviour-tracks={tracked} :: peer P{p} holds {held} reservations ({active} already active in the handlers), limit {MAX_RES_PEER}"));
            }
        }
        if total_res > MAX_RES {
            let tracked = (0..NCONN).filter(|c| self.conns[*c].mirror == Some(true)).count();
            return Err(format!("reservations-total-exceeded held={total_res} limit={MAX_RES} behaviour-tracks={tracked} :: {total_res} reservations held in total, limit {MAX_RES}"));
        }
        let held: Vec<&Circ> = self.circs.iter().filter(|x| x.held).collect();
        let driven = |p: u8| held.iter().filter(|x| matches!(x.stage, Stage::Accepting | Stage::Driving) && self.circ_involves(x, p)).count();
        let count = |p: u8| held.iter().filter(|x| self.circ_involves(x, p)).count();
        let newest = self.newest.and_then(|n| self.circs.iter().find(|x| x.cid == n));
        let mut order: Vec<u8> = Vec::new();
        if let Some(n) = newest {
            order.push(CONN_PEER[n.src]);
            order.push(CONN_PEER[n.dst]);
        }
        for p in 1..=3u8 {
            if !order.contains(&p) {
                order.push(p);
            }
        }
        for p in order {
            let n = count(p);
            if n > MAX_CIRC_PEER {
                let role = match newest {
                    Some(x) if CONN_PEER[x.src] == p => "source-of-newest-circuit",
                    Some(x) if CONN_PEER[x.dst] == p => "destination-of-newest-circuit(source-within-limit)",
                    _ => "not-in-newest-circuit",
                };
                return Err(format!("circuits-per-peer-exceeded held={n} limit={MAX_CIRC_PEER} peer-is={role} :: peer P{p} is involved in {n} circuits ({} of them accepted/driven), limit {MAX_CIRC_PEER}; circuits: {:?}", driven(p), held.iter().map(|x| format!("P{}(c{})->P{}(c{}) stage{}", CONN_PEER[x.src], x.src, CONN_PEER[x.dst], x.dst, x.stage.tag())).collect::<Vec<_>>()));
            }
        }
        if held.len() > MAX_CIRC {
            return Err(format!("circuits-total-exceeded held={} limit={MAX_CIRC} :: {} circuits held in total", held.len(), held.len()));
        }
        Ok(())
    }
}

impl System for Sys {
    type Action = Act;

    fn actions(&self) -> Vec<Act> {
        let mut v = Vec::new();
        for c in 0..NCONN {
            if !self.conns[c].open {
                continue;
            }
            v.push(Act::ResvReq(c));
            if self.conns[c].pending.is_some() {
                v.push(Act::ResvDone(c, true));
                v.push(Act::ResvDone(c, false));
            }
            if self.conns[c].active && (self.conns[c].pending.is_none() || timeout_while_accepting()) {
                v.push(Act::ResvTimeout(c));
            }
            if self.circs.len() < MAX_RECORDS {
                for p in 1..=3u8 {
                    // When the behaviour believes the destination has several active
                    // reservations it picks the destination connection by HashMap iteration
                    // order (per-instance random keys): such requests would make the history ->
                    // state map non-deterministic and are left out of the alphabet.
                    let tracked = Self::peer_conns(p).filter(|d| self.conns[*d].mirror == Some(true)).count();
                    if p != CONN_PEER[c] && tracked <= 1 {
                        v.push(Act::CircReq(c, p));
                    }
                }
            }
        }
        for (k, x) in self.circs.iter().enumerate() {
            v.push(Act::CircStep(k, true));
            if !matches!(x.stage, Stage::Driving) {
                v.push(Act::CircStep(k, false));
            }
        }
        for c in 0..NCONN {
            if self.conns[c].open {
                v.push(Act::Close(c));
            }
        }
        v
    }

    fn step(&mut self, a: &Act) -> Result<(), String> {
        self.newest = None;
        match *a {
            Act::ResvReq(c) => {
                if !self.conns.get(c).map(|x| x.open).unwrap_or(false) {
                    return Err("harness-disabled-action :: ResvReq on closed connection".into());
                }
                let renewed = self.conns[c].active;
                self.feed(c, HEv::ReservationReqReceived { inbound_reservation_req: reserve_req(), endpoint: endpoint(c), renewed });
            }
            Act::ResvDone(c, ok) => {
                let Some(Pending::Accepting(req)) = self.conns.get_mut(c).and_then(|x| x.pending.take()) else { return Err("harness-disabled-action :: ResvDone without pending accept".into()) };
                drop(req);
                if ok {
                    let renewed = std::mem::replace(&mut self.conns[c].active, true);
                    self.feed(c, HEv::ReservationReqAccepted { renewed });
                    // mirror of `ReservationReqAccepted` arm: re-marks the connection Active
                    self.conns[c].mirror = Some(true);
                } else {
                    self.feed(c, HEv::ReservationReqAcceptFailed { error: relay::inbound::hop::Error::StreamClosed });
                }
            }
            Act::ResvTimeout(c) => {
                if !self.conns.get(c).map(|x| x.open && x.active).unwrap_or(false) {
                    return Err("harness-disabled-action :: ResvTimeout without active reservation".into());
                }
                self.conns[c].active = false;
                self.feed(c, HEv::ReservationTimedOut {});
                self.conns[c].mirror = None;
            }
            Act::CircReq(c, p) => {
                if !self.conns.get(c).map(|x| x.open).unwrap_or(false) || p == CONN_PEER[c] {
                    return Err("harness-disabled-action :: CircReq".into());
                }
                self.feed(c, HEv::CircuitReqReceived { inbound_circuit_req: connect_req(peer(p)), endpoint: endpoint(c) });
            }
            Act::CircStep(k, ok) => {
                if k >= self.circs.len() {
                    return Err("harness-disabled-action :: CircStep".into());
                }
                let (cid, src, dst) = (self.circs[k].cid, self.circs[k].src, self.circs[k].dst);
                let (src_peer, dst_peer) = (peer(CONN_PEER[src]), peer(CONN_PEER[dst]));
                if !self.circs[k].held {
                    cnt(|c| c.stale_events += 1);
                }
                let stage = std::mem::replace(&mut self.circs[k].stage, Stage::Negotiating(None));
                match stage {
                    Stage::Negotiating(req) => {
                        let Some(req) = req else { return Err("harness-disabled-action :: CircStep on a record in transition".into()) };
                        if ok {
                            // the behaviour answers with AcceptAndDriveCircuit to the source
                            // connection (record -> Accepting), or that command is dropped
                            // because the source connection is gone (record removed).
                            let (_, dst_stream) = stream_pair();
                            self.feed(dst, HEv::OutboundConnectNegotiated { circuit_id: cid, src_peer_id: src_peer, src_connection_id: conn_id(src), inbound_circuit_req: req, dst_stream, dst_pending_data: Bytes::new() });
                        } else {
                            // the behaviour answers with DenyCircuitReq{Some(id)} to the source
                            self.circs[k].held = false;
                            let error = relay::outbound::stop::Error::Io(std::io::ErrorKind::UnexpectedEof.into());
                            let status = stop_error_status(&error);
                            self.feed(dst, HEv::OutboundConnectNegotiationFailed { circuit_id: cid, src_peer_id: src_peer, src_connection_id: conn_id(src), inbound_circuit_req: req, status, error });
                        }
                        self.drain()?;
                        // no follow-up command reached a live handler: the circuit is over
                        self.circs.retain(|x| !(x.cid == cid && matches!(x.stage, Stage::Negotiating(None))));
                    }
                    Stage::Denying(req, denied) => {
                        drop(req);
                        self.circs.remove(k);
                        if ok {
                            self.feed(src, denied);
                        } else {
                            self.feed(src, HEv::CircuitReqDenyFailed { circuit_id: Some(cid), dst_peer_id: dst_peer, error: relay::inbound::hop::Error::StreamClosed });
                        }
                    }
                    Stage::Accepting => {
                        if ok {
                            self.circs[k].stage = Stage::Driving;
                            self.feed(src, HEv::CircuitReqAccepted { circuit_id: cid, dst_peer_id: dst_peer });
                        } else {
                            self.circs.remove(k);
                            self.feed(src, HEv::CircuitReqAcceptFailed { circuit_id: cid, dst_peer_id: dst_peer, error: relay::inbound::hop::Error::StreamClosed });
                        }
                    }
                    Stage::Driving => {
                        self.circs.remove(k);
                        self.feed(src, HEv::CircuitClosed { circuit_id: cid, dst_peer_id: dst_peer, error: None });
                    }
                }
            }
            Act::Close(c) => {
                if !self.conns.get(c).map(|x| x.open).unwrap_or(false) {
                    return Err("harness-disabled-action :: Close".into());
                }
                let ep = endpoint(c);
                let remaining = Self::peer_conns(CONN_PEER[c]).filter(|o| *o != c && self.conns[*o].open).count();
                self.conns[c] = Conn { open: false, active: false, pending: None, mirror: None };
                // tasks living on c die; circuits touching c are over for the oracle
                self.circs.retain(|x| if x.stage.on_dst() { x.dst != c } else { x.src != c });
                for x in self.circs.iter_mut() {
                    if x.src == c || x.dst == c {
                        x.held = false;
                    }
                }
                self.beh.on_swarm_event(FromSwarm::ConnectionClosed(ConnectionClosed { peer_id: peer(CONN_PEER[c]), connection_id: conn_id(c), endpoint: &ep, cause: None, remaining_established: remaining }));
            }
        }
        self.drain()?;
        self.limits()
    }

    fn canon(&self) -> Vec<u8> {
        let mut s = String::new();
        for c in &self.conns {
            s.push_str(&format!("{}{}{}{:?};", c.open as u8, c.active as u8, c.pending.is_some() as u8, c.mirror));
        }
        for x in &self.circs {
            s.push_str(&format!("[{}>{} s{} h{}]", x.src, x.dst, x.stage.tag(), x.held as u8));
        }
        s.into_bytes()
    }

    fn nontrivial(&self) -> bool {
        (0..NCONN).any(|c| self.held_res(c)) || self.circs.iter().any(|x| x.held)
    }
}

pub fn run(ctx: &Ctx) -> Outcome {
    let mut out = Outcome::default();
    let lim_of = |v: &mc::Value| -> [usize; 4] {
        let mut l = CONFIGS[0];
        if let Some(a) = v["cfg"]["lim"].as_array() {
            for (i, x) in a.iter().take(4).enumerate() {
                l[i] = x.as_u64().unwrap_or(l[i] as u64) as usize;
            }
        }
        l
    };
    if let Some(case) = &ctx.replay {
        out.evaluations = 1;
        if let Err(m) = bfs::replay_history(Sys::with(lim_of(case)), case) {
            out.violation(bfs::signature_of(&m), m, case.clone());
        }
        return out;
    }
    match mc::catch(crate::c47_probe::timeout_reported_while_accept_in_flight) {
        Ok(Ok(b)) => {
            let _ = TIMEOUT_WHILE_ACCEPTING.set(b);
            out.count("probe_handler_reports_timeout_while_accept_in_flight", b as u64);
            out.notes.push(format!("production handler probe: ReservationTimedOut is {} while an accept is in flight; the handler model follows", if b { "reported" } else { "not reported" }));
        }
        Ok(Err(m)) => out.machinery(format!("handler probe failed: {m}")),
        Err(p) => out.machinery(format!("handler probe panicked: {p}")),
    }
    let depth = ctx.tier.pick(6, 8);
    let ddepth = ctx.tier.pick(3, 4);
    for lim in CONFIGS {
        let cfg = json!({"lim": lim, "limits": format!("reservations {} / per peer {}, circuits {} / per peer {}", lim[0], lim[1], lim[2], lim[3]), "connections": "P1 c0 c1, P2 c2 c3, P3 c4"});
        let (st, v) = bfs::bfs_replay(|| Sys::with(lim), depth, ctx.tier.pick(400_000, 3_000_000));
        bfs::record(&mut out, &cfg, &st, &v);
        out.count(&format!("states_limits_{}_{}_{}_{}", lim[0], lim[1], lim[2], lim[3]), st.states);
        let (n, capped, v2) = bfs::dfs_all(|| Sys::with(lim), ddepth, 3_000_000);
        out.count("dfs_companion_sequences", n);
        out.evaluations += n;
        out.traces += n;
        if capped {
            out.caps.push(format!("dfs companion capped at {n} sequences"));
        }
        bfs::record(&mut out, &cfg, &Default::default(), &v2);
    }
    let c = CNT.with(|c| c.borrow().clone());
    out.count("cmd_accept_reservation", c.accept_resv);
    out.count("cmd_deny_reservation", c.deny_resv);
    out.count("cmd_negotiate_outbound_connect", c.negotiate);
    out.count("cmd_deny_circuit_direct", c.deny_circ_direct);
    out.count("cmd_deny_circuit_after_failed_negotiation", c.deny_circ_after_fail);
    out.count("cmd_accept_and_drive_circuit", c.drive);
    out.count("cmds_to_closed_connections_dropped", c.dropped_cmds);
    out.count("relay_events_generated", c.relay_events);
    out.count("stale_handler_events_fed", c.stale_events);
    for k in ["cmd_accept_reservation", "cmd_deny_reservation", "cmd_negotiate_outbound_connect", "cmd_deny_circuit_direct", "cmd_accept_and_drive_circuit"] {
        if out.get(k) == 0 {
            out.machinery(format!("vacuity: the behaviour never issued {k}"));
        }
    }
    out.notes.push(format!("bfs depth {depth}, dfs companion depth {ddepth}; command counters are summed over all (re-)executions of histories"));
    out
}
