//! Family binary (checks are registered here).

mod c45;
mod c46;
mod c47;
mod c47_probe;
mod c48;
mod c49;
mod streams;

fn main() {
    mc::main_dispatch(&[("C45", c45::run, c45::META), ("C46", c46::run, c46::META), ("C47", c47::run, c47::META), ("C48", c48::run, c48::META), ("C49", c49::run, c49::META)]);
}
