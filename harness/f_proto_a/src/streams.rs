//! `libp2p_swarm::Stream` values over in-memory pipes (negotiated with the production
//! multistream-select futures, wrapped by the swarm hook `new_stream`).

use futures::future::join;
use kit::pipe::{self, PipeCfg};
use kit::tasks::run_ready;
use libp2p_core::muxing::SubstreamBox;
use libp2p_swarm::Stream;
use multistream_select::{dialer_select_proto, listener_select_proto, Version};

/// (dialer side, listener side) of one negotiated in-memory substream
pub fn stream_pair() -> (Stream, Stream) {
    let (a, b) = pipe::pair(PipeCfg::default());
    let fut = join(dialer_select_proto(SubstreamBox::new(a), ["/verif/1"], Version::V1), listener_select_proto(SubstreamBox::new(b), ["/verif/1"]));
    let (d, l) = run_ready(fut, 64).expect("in-memory negotiation completes");
    let (_, d) = d.expect("dialer negotiates");
    let (_, l) = l.expect("listener negotiates");
    (libp2p_swarm::verif_proto_a::new_stream(d), libp2p_swarm::verif_proto_a::new_stream(l))
}
