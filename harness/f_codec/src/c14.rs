//! C14 — multistream-select: agreement and transparency under every chunking / readiness /
//! schedule (E1: deviation-bounded exploration of the two real negotiation futures over a Pipe).

use futures::{AsyncReadExt, AsyncWriteExt};
use kit::pipe::{self, PipeCfg};
use kit::tasks::{RunEnd, Tasks};
use mc::choice::{self, Chooser};
use mc::{json, Ctx, Meta, Outcome, Value};
use multistream_select::{dialer_select_proto, listener_select_proto, NegotiationError, Version};
use std::cell::RefCell;
use std::rc::Rc;

pub const META: Meta = Meta {
    level: "model_checking",
    rule: "all (dialer list of 1-2, listener list of 0-2 names over {/a,/b,/c} and (deviation bound 1 quick / 2 thorough) over the related names {/a,/A,/ab}, V1|V1Lazy, application writes plain|vectored) configurations; per pair every execution with <= bound deviations (1-byte reads, 1-byte writes, injected Pending on read/write/flush, non-round-robin task choice) of dialer_select_proto || listener_select_proto over an in-memory pipe followed by an application phase (3-byte tag each way, flush, read, close). Non-trivial = executions with >=1 deviation, distinct by (config, choice sequence).",
    explanation: "E1 stateless DFS with deviation bound (CHESS-style); every execution runs the real futures; oracle: both Ok on the first dialer protocol the listener has or both Err(Failed); lazy dialer learns failure on its first read; tags arrive intact.",
    assumptions: &["poll-granularity interleaving on one thread", "names contain no newline (hostile names are C15)"],
};

#[derive(Default, Debug, Clone)]
struct Side {
    proto: Option<String>,
    neg_err: Option<String>,
    neg_failed: bool,
    write_err: bool,
    read: Option<Result<Vec<u8>, String>>,
    done: bool,
}

const DTAG: [u8; 3] = [0xD1, 0xD2, 0xD3];
const LTAG: [u8; 3] = [0xE1, 0xE2, 0xE3];

fn version(v: u8) -> Version {
    if v == 0 { Version::V1 } else { Version::V1Lazy }
}

/// write the tag either with plain writes or — `vectored` — through `poll_write_vectored`
/// (two slices), which `Negotiated` / the length-delimited layer implement separately
async fn write_tag<W: futures::AsyncWrite + Unpin>(io: &mut W, tag: &[u8; 3], vectored: bool) -> std::io::Result<()> {
    if !vectored {
        return io.write_all(tag).await;
    }
    let mut off = 0usize;
    while off < tag.len() {
        let rest = &tag[off..];
        let (a, b) = rest.split_at(rest.len().min(1));
        let n = io.write_vectored(&[std::io::IoSlice::new(a), std::io::IoSlice::new(b)]).await?;
        if n == 0 {
            return Err(std::io::ErrorKind::WriteZero.into());
        }
        off += n;
    }
    Ok(())
}

fn one(dl: &[&'static str], ll: &[&'static str], ver: u8, vectored: bool, pcfg: PipeCfg, sched: bool) -> Result<(), String> {
    let (a, b) = pipe::pair(pcfg);
    let d = Rc::new(RefCell::new(Side::default()));
    let l = Rc::new(RefCell::new(Side::default()));
    let mut tasks = Tasks::new(sched);
    {
        let d = d.clone();
        let dl = dl.to_vec();
        tasks.spawn_local("dialer", async move {
            match dialer_select_proto(a, dl, version(ver)).await {
                Ok((p, mut io)) => {
                    d.borrow_mut().proto = Some(p.to_string());
                    let w = async {
                        write_tag(&mut io, &DTAG, vectored).await?;
                        io.flush().await
                    }
                    .await;
                    d.borrow_mut().write_err = w.is_err();
                    let mut buf = [0u8; 3];
                    let r = io.read_exact(&mut buf).await;
                    let ok = r.is_ok();
                    d.borrow_mut().read = Some(r.map(|_| buf.to_vec()).map_err(|e| e.to_string()));
                    // After a failed read a `Negotiated` is left in its `Invalid` state and any
                    // further call panics ("Negotiated: Invalid state"). That is outside what
                    // C14 states, so the harness only closes a healthy stream.
                    if ok {
                        let _ = io.close().await;
                    }
                }
                Err(e) => {
                    d.borrow_mut().neg_failed = matches!(e, NegotiationError::Failed);
                    d.borrow_mut().neg_err = Some(e.to_string());
                }
            }
            d.borrow_mut().done = true;
        });
    }
    {
        let l = l.clone();
        let ll = ll.to_vec();
        tasks.spawn_local("listener", async move {
            match listener_select_proto(b, ll).await {
                Ok((p, mut io)) => {
                    l.borrow_mut().proto = Some(p.to_string());
                    let w = async {
                        write_tag(&mut io, &LTAG, vectored).await?;
                        io.flush().await
                    }
                    .await;
                    l.borrow_mut().write_err = w.is_err();
                    let mut buf = [0u8; 3];
                    let r = io.read_exact(&mut buf).await;
                    let ok = r.is_ok();
                    l.borrow_mut().read = Some(r.map(|_| buf.to_vec()).map_err(|e| e.to_string()));
                    // After a failed read a `Negotiated` is left in its `Invalid` state and any
                    // further call panics ("Negotiated: Invalid state"). That is outside what
                    // C14 states, so the harness only closes a healthy stream.
                    if ok {
                        let _ = io.close().await;
                    }
                }
                Err(e) => {
                    l.borrow_mut().neg_failed = matches!(e, NegotiationError::Failed);
                    l.borrow_mut().neg_err = Some(e.to_string());
                }
            }
            l.borrow_mut().done = true;
        });
    }
    let end = tasks.run(4000);
    let d = d.borrow().clone();
    let l = l.borrow().clone();
    choice::observe(&format!("{d:?}{l:?}"));
    if end == RunEnd::Horizon {
        return Err("horizon :: still runnable after 4000 polls (livelock?)".into());
    }
    if !d.done || !l.done {
        return Err(format!("stuck :: quiescent but unfinished: dialer done={} listener done={}", d.done, l.done));
    }
    // expected: first dialer protocol the listener has
    let lazy = ver == 1; // V1Lazy settles optimistically on the *last* protocol of the list
    let expect = dl.iter().find(|p| ll.contains(p)).map(|s| s.to_string());
    match &expect {
        Some(p) => {
            if d.proto.as_ref() != Some(p) || l.proto.as_ref() != Some(p) {
                return Err(format!("disagree :: expected {p}, dialer {:?}/{:?} listener {:?}/{:?}", d.proto, d.neg_err, l.proto, l.neg_err));
            }
            if d.read != Some(Ok(LTAG.to_vec())) || l.read != Some(Ok(DTAG.to_vec())) || d.write_err || l.write_err {
                return Err(format!("app-data :: dialer read {:?} (write_err {}), listener read {:?} (write_err {})", d.read, d.write_err, l.read, l.write_err));
            }
        }
        None => {
            // Reading of "the listener outcome is the same" for a lazy dialer: the listener must
            // fail. After it answered `na`, the dialer's optimistic application bytes reach it as
            // a garbage negotiation frame (documented pitfall of V1Lazy), so the error kind may be
            // ProtocolError instead of Failed; only "not Ok" is demanded there.
            if l.proto.is_some() || (!l.neg_failed && !(lazy && l.neg_err.is_some())) {
                return Err(format!("listener-outcome :: no common protocol but listener got {:?}/{:?}", l.proto, l.neg_err));
            }
            if lazy {
                // dialer settled optimistically; it must learn of the failure on its first read
                match (&d.proto, &d.read) {
                    (Some(_), Some(Err(_))) => {}
                    (None, _) if d.neg_failed => {}
                    _ => return Err(format!("lazy-dialer-not-told :: dialer proto {:?} read {:?} neg_err {:?}", d.proto, d.read, d.neg_err)),
                }
            } else if d.proto.is_some() || !d.neg_failed {
                return Err(format!("dialer-outcome :: no common protocol but dialer got {:?}/{:?}", d.proto, d.neg_err));
            }
        }
    }
    Ok(())
}

/// the first three names are unrelated; the last two are *related* to "/a" (same up to ASCII
/// case, proper extension) and must nevertheless be treated as different protocols
const NAMES: [&str; 5] = ["/a", "/b", "/c", "/A", "/ab"];
const UNRELATED: [usize; 3] = [0, 1, 2];
const RELATED: [usize; 3] = [0, 3, 4];

fn lists(alpha: &[usize; 3], min: usize, max: usize) -> Vec<Vec<&'static str>> {
    let mut v = Vec::new();
    for len in min..=max {
        mc::enumerate::sequences(3, len, |idx| {
            // no duplicates inside one list (duplicates add nothing: first match wins)
            if len == 2 && idx[0] == idx[1] {
                return;
            }
            v.push(idx.iter().map(|&i| NAMES[alpha[i]]).collect());
        });
    }
    v
}

fn body(cfg: &Value) -> impl FnMut(&mut Chooser) -> Result<(), String> {
    let dl: Vec<&'static str> = cfg["d"].as_array().unwrap().iter().map(|s| NAMES[NAMES.iter().position(|n| Some(*n) == s.as_str()).unwrap()]).collect();
    let ll: Vec<&'static str> = cfg["l"].as_array().unwrap().iter().map(|s| NAMES[NAMES.iter().position(|n| Some(*n) == s.as_str()).unwrap()]).collect();
    let ver = cfg["v"].as_u64().unwrap() as u8;
    let vectored = cfg["w"].as_u64().unwrap_or(0) == 1;
    move |ch: &mut Chooser| {
        let (dl, ll) = (dl.clone(), ll.clone());
        choice::scoped(ch, move || mc::catch(|| one(&dl, &ll, ver, vectored, PipeCfg::adversarial(), true)).unwrap_or_else(|p| Err(format!("panic :: {p}"))))
    }
}

pub fn run(ctx: &Ctx) -> Outcome {
    if let Some(case) = &ctx.replay {
        let mut out = Outcome::default();
        out.evaluations = 1;
        let choices: Vec<u32> = serde_json::from_value(case["choices"].clone()).unwrap_or_default();
        if let Err(m) = choice::replay(&choices, body(&case["cfg"])) {
            out.violation(mc::bfs::signature_of(&m), m, case.clone());
        }
        return out;
    }
    let bound = ctx.tier.pick(2, 4);
    let mut cfgs = Vec::new();
    for (alpha, b) in [(&UNRELATED, bound), (&RELATED, ctx.tier.pick(1, 2))] {
        for d in lists(alpha, 1, 2) {
            for l in lists(alpha, 0, 2) {
                // lists over {/a} only are already in the first group
                if b != bound && d.iter().chain(l.iter()).all(|n| *n == "/a") {
                    continue;
                }
                for v in 0..2u8 {
                    for w in 0..2u8 {
                        cfgs.push((json!({"d": d, "l": l, "v": v, "w": w}), b));
                    }
                }
            }
        }
    }
    mc::workers(ctx, 16, |ctx| {
        let mut out = Outcome::default();
        for (i, (cfg, bound)) in cfgs.iter().enumerate() {
            if !ctx.mine(i as u64) {
                continue;
            }
            let (st, viol) = choice::explore(*bound, 0, body(cfg));
            out.add_explore(&st);
            out.count("configs", 1);
            out.count("distinct_observations", st.distinct_obs);
            // each execution beyond the first deviates at least once
            for k in 1..st.executions.min(50_000) {
                out.nontrivial_h(mc::report::hash_str(&cfg.to_string()) ^ k.wrapping_mul(0x9e3779b97f4a7c15));
            }
            if i % 97 == 0 {
                out.sample(json!({"cfg": cfg, "executions": st.executions, "distinct_observations": st.distinct_obs}));
            }
            if let Some((choices, m)) = viol {
                if m.starts_with("NONDETERMINISM") {
                    out.machinery(format!("{m} cfg={cfg}"));
                } else {
                    out.violation(format!("{} {}", mc::bfs::signature_of(&m), cfg), m, json!({"cfg": cfg, "choices": choices}));
                }
            }
        }
        out
    })
}
