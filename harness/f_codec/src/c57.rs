//! C57 — length-prefixed protobuf codec: round-trip under every split, limit enforced on the
//! prefix alone, no panic on arbitrary input. Engine E3 (complete enumeration).

use asynchronous_codec::{Decoder, Encoder, FramedRead};
use bytes::BytesMut;
use futures::StreamExt;
use kit::pipe::ChunkReader;
use kit::tasks::run_ready;
use mc::{enumerate, json, Ctx, Meta, Outcome, Value};
use prost_codec::{proto::Message, Codec};

pub const META: Meta = Meta {
    level: "exploration",
    rule: "round-trip: every sequence of <=2 (quick) / <=3 (thorough) messages with payload lengths from {0,1,126,127,128,limit-3,limit-2 (=max fitting),..} x every split of the encoded stream into <=3 chunks, decoded by the real Codec inside FramedRead; hostile: every byte string of length <=3 (quick) / <=4 (thorough) over a 10-byte alphabet fed to Codec::decode, plus over-long varints and huge declared lengths. Non-trivial = distinct (messages, split) cases with >=2 chunks or a rejected input.",
    explanation: "Complete enumeration (E3) over the stated alphabet; oracle: decoded sequence == encoded sequence for every split; declared length > limit gives Err with only the prefix buffered; no panic.",
    assumptions: &["payload interiors are represented by boundary lengths", "prost and unsigned-varint are trusted"],
};

const LIMIT: usize = 300;

fn encode_all(msgs: &[Vec<u8>]) -> Result<Vec<u8>, String> {
    let mut c: Codec<Message> = Codec::new(LIMIT);
    let mut buf = BytesMut::new();
    for m in msgs {
        c.encode(Message { data: m.clone() }, &mut buf).map_err(|e| format!("encode: {e}"))?;
    }
    Ok(buf.to_vec())
}

/// decode a chunked stream with the real codec in FramedRead; returns decoded payloads and
/// whether the stream ended with an error
fn decode_stream(chunks: Vec<Vec<u8>>) -> (Vec<Vec<u8>>, Option<String>) {
    let mut fr = FramedRead::new(ChunkReader::new(chunks), Codec::<Message>::new(LIMIT));
    let mut out = Vec::new();
    loop {
        match run_ready(fr.next(), 64) {
            Some(Some(Ok(m))) => {
                out.push(m.data);
                // no case encodes more than a handful of messages: a decoder that keeps
                // producing them is not consuming its input
                if out.len() > 64 {
                    return (out, Some("runaway: the decoder keeps producing messages without consuming input".into()));
                }
            }
            Some(Some(Err(e))) => return (out, Some(e.to_string())),
            Some(None) => return (out, None),
            None => return (out, Some("pending forever".into())),
        }
    }
}

fn roundtrip_case(msgs: &[Vec<u8>], cuts: &[usize]) -> Result<(), String> {
    let enc = encode_all(msgs)?;
    let chunks: Vec<Vec<u8>> = enumerate::chunks_at(&enc, cuts).into_iter().map(|c| c.to_vec()).collect();
    let (got, err) = decode_stream(chunks);
    let fits: Vec<&Vec<u8>> = msgs.iter().collect();
    // every message whose *encoded* length is within the limit must come out; the first one
    // above the limit must produce an error
    let mut expect = Vec::new();
    let mut expect_err = false;
    for m in fits {
        let encoded_len = Message { data: m.clone() }.encoded_len_pub();
        if encoded_len > LIMIT {
            expect_err = true;
            break;
        }
        expect.push(m.clone());
    }
    if got != expect {
        return Err(format!("roundtrip-mismatch :: decoded {} messages (lens {:?}), expected lens {:?}", got.len(), got.iter().map(|g| g.len()).collect::<Vec<_>>(), expect.iter().map(|g| g.len()).collect::<Vec<_>>()));
    }
    if expect_err != err.is_some() {
        return Err(format!("roundtrip-error-mismatch :: expected error={expect_err}, got {err:?}"));
    }
    Ok(())
}

trait EncLen {
    fn encoded_len_pub(&self) -> usize;
}
impl EncLen for Message {
    fn encoded_len_pub(&self) -> usize {
        // independent computation: field 1, wire type 2; proto3 omits empty bytes
        if self.data.is_empty() {
            0
        } else {
            1 + kit::pb::varint_vec(self.data.len() as u64).len() + self.data.len()
        }
    }
}

fn payload(len: usize, tag: u8) -> Vec<u8> {
    (0..len).map(|i| tag.wrapping_add(i as u8)).collect()
}

fn hostile_case(bytes: &[u8]) -> Result<&'static str, String> {
    let mut c: Codec<Message> = Codec::new(LIMIT);
    let mut src = BytesMut::from(bytes);
    let before = src.len();
    let r = mc::catch(|| c.decode(&mut src)).map_err(|p| format!("decode-panic :: {p}"))?;
    // independent reading of the prefix
    match kit::pb::read_varint(bytes) {
        Some((l, n)) if n <= bytes.len() => {
            if l as usize > LIMIT {
                return match r {
                    Err(_) => Ok("reject-limit"),
                    Ok(_) => Err(format!("limit-not-enforced :: declared {l} > {LIMIT} answered {:?}", r.map(|o| o.map(|m| m.data.len())))),
                };
            }
            if bytes.len() - n < l as usize {
                return match r {
                    Ok(None) if src.len() == before => Ok("need-more"),
                    Ok(None) => Err("consumed-on-incomplete :: buffer advanced although frame incomplete".into()),
                    Err(_) => Ok("reject-other"), // e.g. non-minimal varint: rejecting is allowed
                    Ok(Some(_)) => Err("decoded-incomplete :: message produced from incomplete frame".into()),
                };
            }
            match r {
                Ok(Some(_)) if before - src.len() != n + l as usize => Err(format!("consumed-wrong-length :: frame of {n}+{l} bytes decoded but {} bytes consumed", before - src.len())),
                Ok(Some(_)) => Ok("decoded"),
                Err(_) => Ok("reject-body"),
                Ok(None) => Err(format!("stalled-complete :: complete frame (len {l}) not decoded")),
            }
        }
        _ => match r {
            Ok(None) => Ok("need-more"),
            Err(_) => Ok("reject-prefix"),
            Ok(Some(_)) => Err("decoded-without-prefix :: message without complete prefix".into()),
        },
    }
}

pub fn run(ctx: &Ctx) -> Outcome {
    let mut out = Outcome::default();
    if let Some(case) = &ctx.replay {
        replay(case, &mut out);
        return out;
    }
    // ---- round trip under all splits
    let lens: Vec<usize> = vec![0, 1, 126, 127, 128, LIMIT - 4, LIMIT - 3, LIMIT - 2, LIMIT];
    let max_msgs = ctx.tier.pick(2, 3);
    enumerate::sequences_upto(lens.len(), max_msgs, |idx| {
        if idx.is_empty() {
            return;
        }
        let msgs: Vec<Vec<u8>> = idx.iter().enumerate().map(|(k, &i)| payload(lens[i], (k * 50) as u8)).collect();
        let Ok(enc) = encode_all(&msgs) else {
            out.violation("encode-failed", format!("encode failed for lens {:?}", idx), json!({"kind":"rt","lens":idx.iter().map(|&i| lens[i]).collect::<Vec<_>>(),"cuts":[]}));
            return;
        };
        // cut positions: all positions near message boundaries/prefixes, interior sampled at ends
        let mut interesting: Vec<usize> = Vec::new();
        let mut p = 0;
        for m in &msgs {
            let l = Message { data: m.clone() }.encoded_len_pub();
            let pre = kit::pb::varint_vec(l as u64).len();
            for d in 0..=(pre + 3) {
                interesting.push(p + d);
            }
            let end = p + pre + l;
            for d in 1..=2 {
                if end >= d {
                    interesting.push(end - d);
                }
            }
            p = end;
        }
        interesting.retain(|&c| c >= 1 && c < enc.len());
        interesting.sort();
        interesting.dedup();
        // all cut sets of size <= 2 over interesting positions  (=> <= 3 chunks)
        let n = interesting.len();
        let mut cutsets: Vec<Vec<usize>> = vec![vec![]];
        for i in 0..n {
            cutsets.push(vec![interesting[i]]);
            for j in i + 1..n {
                cutsets.push(vec![interesting[i], interesting[j]]);
            }
        }
        for cuts in cutsets {
            out.evaluations += 1;
            let lens_v: Vec<usize> = idx.iter().map(|&i| lens[i]).collect();
            if !cuts.is_empty() {
                out.nontrivial(&format!("rt{lens_v:?}{cuts:?}"));
            }
            if out.evaluations % 9973 == 1 {
                out.sample(json!({"kind":"roundtrip","payload_lens":lens_v,"cuts":cuts}));
            }
            if let Err(m) = mc::catch(|| roundtrip_case(&msgs, &cuts)).unwrap_or_else(|p| Err(format!("roundtrip-panic :: {p}"))) {
                out.violation(mc::bfs::signature_of(&m), m, json!({"kind":"rt","lens":lens_v,"cuts":cuts}));
            }
        }
    });
    // ---- hostile input
    let alpha: [u8; 10] = [0x00, 0x01, 0x02, 0x0a, 0x12, 0x7f, 0x80, 0x81, 0xac, 0xff];
    let maxlen = ctx.tier.pick(3, 5);
    let mut classes = std::collections::BTreeMap::<&'static str, u64>::new();
    let mut hostile = |bytes: &[u8], out: &mut Outcome| {
        out.evaluations += 1;
        match hostile_case(bytes) {
            Ok(class) => {
                *classes.entry(class).or_insert(0) += 1;
                if class != "need-more" {
                    out.nontrivial(&format!("h{bytes:?}"));
                }
            }
            Err(m) => out.violation(mc::bfs::signature_of(&m), m.clone(), json!({"kind":"hostile","bytes":bytes})),
        }
    };
    enumerate::sequences_upto(alpha.len(), maxlen, |idx| {
        let bytes: Vec<u8> = idx.iter().map(|&i| alpha[i]).collect();
        hostile(&bytes, &mut out);
    });
    // structured hostile prefixes
    let mut extra: Vec<Vec<u8>> = vec![
        vec![0xff; 9],
        vec![0xff; 10],
        vec![0xff, 0xff, 0xff, 0xff, 0xff, 0xff, 0xff, 0xff, 0xff, 0x01],
        vec![0xff, 0xff, 0xff, 0xff, 0xff, 0xff, 0xff, 0xff, 0x7f],
        vec![0x80, 0x80, 0x80, 0x80, 0x80, 0x80, 0x80, 0x80, 0x80, 0x80, 0x01],
        kit::pb::varint_vec(1 << 63),
        kit::pb::varint_vec(u64::MAX),
        kit::pb::varint_vec(LIMIT as u64 + 1),
        kit::pb::varint_vec(LIMIT as u64),
        kit::pb::varint_vec(u32::MAX as u64),
    ];
    // declared length = limit+1 with payload present must still be rejected
    let mut big = kit::pb::varint_vec(LIMIT as u64 + 1);
    big.extend(std::iter::repeat(0).take(LIMIT + 1));
    extra.push(big);
    for e in &extra {
        hostile(e, &mut out);
    }
    out.sample(json!({"kind":"hostile","bytes":extra[5]}));
    for (k, v) in classes {
        out.count(&format!("class_{k}"), v);
    }
    if out.get("class_reject-limit") == 0 || out.get("class_decoded") == 0 {
        out.machinery("vacuity: hostile enumeration never hit both the limit rejection and a successful decode");
    }
    out
}

fn replay(case: &Value, out: &mut Outcome) {
    out.evaluations = 1;
    let r = match case["kind"].as_str() {
        Some("rt") => {
            let lens: Vec<usize> = serde_json::from_value(case["lens"].clone()).unwrap_or_default();
            let cuts: Vec<usize> = serde_json::from_value(case["cuts"].clone()).unwrap_or_default();
            let msgs: Vec<Vec<u8>> = lens.iter().enumerate().map(|(k, &l)| payload(l, (k * 50) as u8)).collect();
            mc::catch(|| roundtrip_case(&msgs, &cuts)).unwrap_or_else(|p| Err(format!("roundtrip-panic :: {p}")))
        }
        Some("hostile") => {
            let bytes: Vec<u8> = serde_json::from_value(case["bytes"].clone()).unwrap_or_default();
            hostile_case(&bytes).map(|_| ())
        }
        _ => Err("bad replay case".into()),
    };
    if let Err(m) = r {
        out.violation(mc::bfs::signature_of(&m), m, case.clone());
    }
}
