//! Family binary: codecs and negotiation (C14, C15, C25, C57).
mod c14;
mod c15;
mod c25;
mod c57;

fn main() {
    mc::main_dispatch(&[("C14", c14::run, c14::META), ("C15", c15::run, c15::META), ("C25", c25::run, c25::META), ("C57", c57::run, c57::META)]);
}
