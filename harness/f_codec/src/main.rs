//! Family binary: codecs and negotiation (C14, C15, C25, C57).
mod c14;
mod c57;

fn main() {
    mc::main_dispatch(&[("C14", c14::run, c14::META), ("C57", c57::run, c57::META)]);
}
