//! Family binary: codecs and negotiation (C14, C15, C25, C57).
mod c57;

fn main() {
    mc::main_dispatch(&[("C57", c57::run, c57::META)]);
}
