//! C25 — mplex framing: every frame round-trips (role mirrored) under every split of the byte
//! stream; declared lengths above 1 MiB are rejected before the payload is buffered; unknown
//! frame types are rejected; arbitrary input never panics. Engine E3 (complete enumeration)
//! through the production `Codec` (hook `libp2p_mplex::verif_tpt`) against an independent
//! reference codec written with `kit::pb` varints.

use bytes::BytesMut;
use kit::pb;
use libp2p_mplex::verif_tpt::{Decoded, Kind, VCodec, VFrame};
use mc::{enumerate, json, Ctx, Meta, Outcome, Value};

pub const META: Meta = Meta {
    level: "exploration",
    rule: "round-trip: every frame over kinds {Open(dialer), Data, Close, Reset} x roles x ids {0,1,2^7-1,2^7,2^60-1,2^61-1} x Data payload lengths {0,1,127,128,2^20}, singly and (quick: reduced set, thorough: all) as ordered pairs, x every split of the encoded stream into <=3 chunks (single frames with payload <=128: every cut position; 2^20-byte payloads and pairs: cut points at every header/length-prefix byte, the first 3 and last 2 payload bytes, i.e. payload interior sampled at its ends only); hostile: every byte string of length <=3 (quick) / <=5 (thorough) over {00,07,08,7f,80,ff} fed whole and byte-by-byte, structured headers (type 7, declared lengths 2^20+1, 2^32, 2^63, over-long varints). Non-trivial = distinct (frames, split) cases with >=2 chunks, and hostile inputs that are rejected or decoded.",
    explanation: "Complete enumeration (E3) over the stated alphabet; oracle: encoded bytes equal the independent reference encoding, decoded frames equal the sent frames with into_local() giving the mirrored role for every split; a declared length > 1 MiB gives Err while the buffer holds only the header and the buffer capacity has not grown to the declared length; type 7 gives Err; no panic; every frame the codec accepts equals what the reference decoder reads.",
    assumptions: &["payload interiors are represented by boundary lengths and end-sampled cut points", "unsigned-varint is trusted for ids above 2^61 (not generated: the header is id<<3 in a u64)"],
};

const MAX: u64 = 1 << 20;

fn kind_name(k: Kind) -> &'static str {
    match k {
        Kind::Open => "open",
        Kind::Data => "data",
        Kind::Close => "close",
        Kind::Reset => "reset",
    }
}
fn kind_of(s: &str) -> Kind {
    match s {
        "open" => Kind::Open,
        "data" => Kind::Data,
        "close" => Kind::Close,
        _ => Kind::Reset,
    }
}

/// compact description of a frame for replay files: (kind, num, dialer, payload len)
#[derive(Clone, Debug, PartialEq, Eq)]
struct Spec {
    kind: Kind,
    num: u64,
    dialer: bool,
    len: usize,
}
impl Spec {
    fn json(&self) -> Value {
        json!({"kind": kind_name(self.kind), "num": self.num, "dialer": self.dialer, "len": self.len})
    }
    fn from_json(v: &Value) -> Spec {
        Spec { kind: kind_of(v["kind"].as_str().unwrap_or("")), num: v["num"].as_u64().unwrap_or(0), dialer: v["dialer"].as_bool().unwrap_or(true), len: v["len"].as_u64().unwrap_or(0) as usize }
    }
    fn frame(&self, tag: u8) -> VFrame {
        VFrame { kind: self.kind, num: self.num, dialer: self.dialer, data: (0..self.len).map(|i| tag.wrapping_add((i % 251) as u8)).collect() }
    }
}

// ---- independent reference codec -------------------------------------------------------------

/// wire flag per the mplex spec: NewStream 0, MessageReceiver 1, MessageInitiator 2,
/// CloseReceiver 3, CloseInitiator 4, ResetReceiver 5, ResetInitiator 6
fn ref_flag(kind: Kind, initiator: bool) -> u64 {
    match (kind, initiator) {
        (Kind::Open, _) => 0,
        (Kind::Data, false) => 1,
        (Kind::Data, true) => 2,
        (Kind::Close, false) => 3,
        (Kind::Close, true) => 4,
        (Kind::Reset, false) => 5,
        (Kind::Reset, true) => 6,
    }
}

fn ref_encode(f: &VFrame) -> Vec<u8> {
    let mut o = Vec::new();
    pb::varint((f.num << 3) | ref_flag(f.kind, f.dialer), &mut o);
    pb::varint(f.data.len() as u64, &mut o);
    o.extend_from_slice(&f.data);
    o
}

enum Vi {
    Incomplete,
    /// more than 10 bytes, overflow of u64, or non-minimal encoding
    Malformed,
    Ok(u64, usize),
}

/// strict reading of an unsigned varint (minimal, <= 10 bytes, fits u64)
fn ref_varint(b: &[u8]) -> Vi {
    let mut v: u128 = 0;
    for (i, x) in b.iter().enumerate() {
        if i >= 10 {
            return Vi::Malformed;
        }
        v |= ((x & 0x7f) as u128) << (7 * i);
        if x & 0x80 == 0 {
            if v > u64::MAX as u128 {
                return Vi::Malformed;
            }
            if *x == 0 && i > 0 {
                return Vi::Malformed;
            }
            return Vi::Ok(v as u64, i + 1);
        }
    }
    if b.len() >= 10 {
        Vi::Malformed
    } else {
        Vi::Incomplete
    }
}

/// what the reference reader makes of a byte string (one frame at the front)
#[derive(Debug)]
enum RefRead {
    /// header or length prefix not complete yet
    NeedPrefix,
    /// a varint is malformed (strict reading); the statement only demands "no panic"
    Malformed,
    /// declared length above the maximum: must be rejected
    TooLong(u64),
    /// prefix fine, payload incomplete
    NeedPayload,
    /// complete frame of unknown type: must be rejected
    BadType,
    /// complete well-formed frame: (remote view, bytes consumed)
    Frame(VFrame, usize),
}

fn ref_read(b: &[u8]) -> RefRead {
    let (h, n) = match ref_varint(b) {
        Vi::Incomplete => return RefRead::NeedPrefix,
        Vi::Malformed => return RefRead::Malformed,
        Vi::Ok(h, n) => (h, n),
    };
    let (l, m) = match ref_varint(&b[n..]) {
        Vi::Incomplete => return RefRead::NeedPrefix,
        Vi::Malformed => return RefRead::Malformed,
        Vi::Ok(l, m) => (l, m),
    };
    if l > MAX {
        return RefRead::TooLong(l);
    }
    let rest = &b[n + m..];
    if (rest.len() as u64) < l {
        return RefRead::NeedPayload;
    }
    let body = &rest[..l as usize];
    // the id a receiver sees carries the *sender's* role: flag "Initiator" = the sender dialed
    let (kind, dialer, data) = match h & 7 {
        0 => (Kind::Open, true, vec![]),
        1 => (Kind::Data, false, body.to_vec()),
        2 => (Kind::Data, true, body.to_vec()),
        3 => (Kind::Close, false, vec![]),
        4 => (Kind::Close, true, vec![]),
        5 => (Kind::Reset, false, vec![]),
        6 => (Kind::Reset, true, vec![]),
        _ => return RefRead::BadType,
    };
    RefRead::Frame(VFrame { kind, num: h >> 3, dialer, data }, n + m + l as usize)
}

// ---- round trip ---------------------------------------------------------------------------------

fn short(f: &VFrame) -> String {
    format!("{}({}{},len {})", kind_name(f.kind), f.num, if f.dialer { "d" } else { "l" }, f.data.len())
}

/// feed `chunks` to one production codec the way FramedRead does: append a chunk, decode until
/// `None`, append the next one.
fn decode_chunks(chunks: &[&[u8]]) -> Result<Vec<Decoded>, String> {
    let mut c = VCodec::new();
    let mut src = BytesMut::new();
    let mut out = Vec::new();
    for ch in chunks {
        src.extend_from_slice(ch);
        loop {
            match c.decode(&mut src) {
                Ok(Some(d)) => out.push(d),
                Ok(None) => break,
                Err(e) => return Err(format!("decode error after {} frames: {e}", out.len())),
            }
        }
    }
    if !src.is_empty() {
        return Err(format!("{} bytes left undecoded after {} frames", src.len(), out.len()));
    }
    Ok(out)
}

fn encode_frames(frames: &[VFrame]) -> Result<Vec<u8>, String> {
    let mut c = VCodec::new();
    let mut buf = BytesMut::new();
    let mut reference = Vec::new();
    for f in frames {
        c.encode(f, &mut buf).map_err(|e| format!("encode-failed :: {}: {e}", short(f)))?;
        reference.extend(ref_encode(f));
    }
    if buf[..] != reference[..] {
        let at = buf.iter().zip(reference.iter()).position(|(a, b)| a != b).unwrap_or(buf.len().min(reference.len()));
        return Err(format!("encode-differs-from-reference :: frames {:?}: codec {} bytes, reference {} bytes, first difference at {at}", frames.iter().map(short).collect::<Vec<_>>(), buf.len(), reference.len()));
    }
    Ok(buf.to_vec())
}

fn check_decoded(frames: &[VFrame], got: &[Decoded]) -> Result<(), String> {
    if got.len() != frames.len() {
        return Err(format!("roundtrip-count :: sent {} frames, decoded {}", frames.len(), got.len()));
    }
    for (f, d) in frames.iter().zip(got) {
        // same frame as seen from the other side: same kind/number/payload, the remote id carries
        // the sender's role, and converted to the receiver's local id the role is mirrored
        if d.remote.kind != f.kind || d.remote.num != f.num || d.remote.data != f.data || d.remote.dialer != f.dialer {
            return Err(format!("roundtrip-mismatch :: sent {} decoded {}", short(f), short(&d.remote)));
        }
        if d.local_num != f.num || d.local_dialer == f.dialer {
            return Err(format!("role-not-mirrored :: sent {} local view ({}, dialer={})", short(f), d.local_num, d.local_dialer));
        }
    }
    Ok(())
}

fn roundtrip_case(frames: &[VFrame], enc: &[u8], cuts: &[usize]) -> Result<(), String> {
    let chunks = enumerate::chunks_at(enc, cuts);
    let got = decode_chunks(&chunks).map_err(|e| format!("roundtrip-rejected :: frames {:?} cuts {cuts:?}: {e}", frames.iter().map(short).collect::<Vec<_>>()))?;
    check_decoded(frames, &got)
}

fn cut_positions(frames: &[VFrame], total: usize) -> Vec<usize> {
    let mut v = Vec::new();
    let mut p = 0;
    for f in frames {
        let pre = pb::varint_vec((f.num << 3) | 7).len() + pb::varint_vec(f.data.len() as u64).len();
        for d in 0..=(pre + 3) {
            v.push(p + d);
        }
        let end = p + pre + f.data.len();
        for d in 1..=2 {
            if end >= d {
                v.push(end - d);
            }
        }
        p = end;
    }
    v.retain(|&c| c >= 1 && c < total);
    v.sort();
    v.dedup();
    v
}

fn roundtrip_all(specs: &[Spec], out: &mut Outcome) {
    let frames: Vec<VFrame> = specs.iter().enumerate().map(|(k, s)| s.frame((k * 97) as u8)).collect();
    let case = |cuts: &[usize]| json!({"kind": "rt", "frames": specs.iter().map(|s| s.json()).collect::<Vec<_>>(), "cuts": cuts});
    let enc = match mc::catch(|| encode_frames(&frames)).unwrap_or_else(|p| Err(format!("encode-panic :: {p}"))) {
        Ok(e) => e,
        Err(m) => {
            out.evaluations += 1;
            out.violation(mc::bfs::signature_of(&m), m, case(&[]));
            return;
        }
    };
    // single frames with a short encoding: every cut position (complete); otherwise the
    // positions around prefixes and payload ends
    let pos: Vec<usize> = if frames.len() == 1 && enc.len() <= 300 { (1..enc.len()).collect() } else { cut_positions(&frames, enc.len()) };
    let mut cutsets: Vec<Vec<usize>> = vec![vec![]];
    for i in 0..pos.len() {
        cutsets.push(vec![pos[i]]);
        for j in i + 1..pos.len() {
            cutsets.push(vec![pos[i], pos[j]]);
        }
    }
    let key: String = frames.iter().map(short).collect::<Vec<_>>().join("+");
    for cuts in cutsets {
        out.evaluations += 1;
        if !cuts.is_empty() {
            out.nontrivial(&format!("rt {key} {cuts:?}"));
            out.count("split_cases", 1);
        }
        if out.evaluations % 7919 == 1 {
            out.sample(json!({"kind": "roundtrip", "frames": frames.iter().map(short).collect::<Vec<_>>(), "encoded_len": enc.len(), "cuts": cuts}));
        }
        if let Err(m) = mc::catch(|| roundtrip_case(&frames, &enc, &cuts)).unwrap_or_else(|p| Err(format!("roundtrip-panic :: {p}"))) {
            out.violation(mc::bfs::signature_of(&m), m, case(&cuts));
        }
    }
}

// ---- hostile input ------------------------------------------------------------------------------

/// Feed `bytes` to a fresh production codec, whole (`step` = 0) or `step` bytes at a time, and
/// judge the first verdict against the reference reader.
fn hostile_case(bytes: &[u8], step: usize) -> Result<&'static str, String> {
    let mut c = VCodec::new();
    let mut src = BytesMut::new();
    let mut fed = 0usize;
    loop {
        let n = if step == 0 { bytes.len() } else { step.min(bytes.len() - fed) };
        src.extend_from_slice(&bytes[fed..fed + n]);
        fed += n;
        let cap_before = src.capacity();
        let r = mc::catch(|| c.decode(&mut src)).map_err(|p| format!("decode-panic :: {p} on {:02x?}", &bytes[..fed.min(16)]))?;
        let view = ref_read(&bytes[..fed]);
        match (&view, r) {
            (RefRead::NeedPrefix, Ok(None)) | (RefRead::NeedPayload, Ok(None)) => {}
            (RefRead::NeedPrefix, Ok(Some(d))) | (RefRead::NeedPayload, Ok(Some(d))) => {
                return Err(format!("decoded-incomplete :: frame {} produced from an incomplete encoding {:02x?}", short(&d.remote), &bytes[..fed.min(16)]));
            }
            // rejecting early is always allowed (nothing in the statement forbids it for input
            // that is not a complete valid frame)
            (RefRead::NeedPrefix, Err(_)) => return Ok("reject-prefix"),
            (RefRead::NeedPayload, Err(_)) => return Ok("reject-early"),
            (RefRead::Malformed, Err(_)) => return Ok("reject-varint"),
            // a lenient decoder may wait or read on; only "no panic" is stated for malformed varints
            (RefRead::Malformed, Ok(_)) => return Ok("lenient-varint"),
            (RefRead::TooLong(l), Err(_)) => {
                // "rejected before their payload is buffered": the buffer must not have been
                // grown to hold the declared payload
                let cap = src.capacity();
                if (cap as u64) >= *l && cap > cap_before {
                    return Err(format!("payload-reserved-before-reject :: declared length {l}: buffer capacity grew from {cap_before} to {cap}"));
                }
                return Ok("reject-length");
            }
            (RefRead::TooLong(l), Ok(x)) => {
                return Err(format!("length-limit-not-enforced :: declared length {l} > 1 MiB answered {} with {} header bytes buffered (capacity now {})", if x.is_some() { "a frame" } else { "Ok(None)" }, fed, src.capacity()));
            }
            (RefRead::BadType, Err(_)) => return Ok("reject-type"),
            (RefRead::BadType, Ok(x)) => {
                return Err(format!("unknown-type-accepted :: complete frame with type 7 answered {:?}", x.map(|d| short(&d.remote))));
            }
            (RefRead::Frame(f, used), Ok(Some(d))) => {
                if d.remote != *f {
                    return Err(format!("differs-from-reference :: codec {} reference {}", short(&d.remote), short(f)));
                }
                if d.local_num != f.num || d.local_dialer == f.dialer {
                    return Err(format!("role-not-mirrored :: frame {} local view dialer={}", short(f), d.local_dialer));
                }
                if src.len() != fed - used {
                    return Err(format!("consumed-wrong-amount :: frame of {used} bytes, buffer went from {fed} to {}", src.len()));
                }
                return Ok("decoded");
            }
            (RefRead::Frame(f, _), Ok(None)) => return Err(format!("stalled-complete :: complete frame {} not decoded", short(f))),
            (RefRead::Frame(f, _), Err(e)) => return Err(format!("valid-frame-rejected :: {}: {e}", short(f))),
        }
        if fed == bytes.len() {
            return Ok("need-more");
        }
    }
}

fn specs(ctx_thorough: bool) -> (Vec<Spec>, Vec<Spec>) {
    let ids: [u64; 6] = [0, 1, 127, 128, (1 << 60) - 1, (1 << 61) - 1];
    let lens: [usize; 5] = [0, 1, 127, 128, 1 << 20];
    let mut all = Vec::new();
    for &num in &ids {
        all.push(Spec { kind: Kind::Open, num, dialer: true, len: 0 });
        for dialer in [true, false] {
            for &len in &lens {
                all.push(Spec { kind: Kind::Data, num, dialer, len });
            }
            all.push(Spec { kind: Kind::Close, num, dialer, len: 0 });
            all.push(Spec { kind: Kind::Reset, num, dialer, len: 0 });
        }
    }
    // frames used as members of pairs
    let pair_ids: &[u64] = if ctx_thorough { &[0, 127, 128, (1 << 60) - 1] } else { &[1, 128] };
    let pair_lens: &[usize] = if ctx_thorough { &[0, 1, 127, 128] } else { &[0, 1, 128] };
    let mut pair = Vec::new();
    for &num in pair_ids {
        pair.push(Spec { kind: Kind::Open, num, dialer: true, len: 0 });
        for dialer in [true, false] {
            for &len in pair_lens {
                pair.push(Spec { kind: Kind::Data, num, dialer, len });
            }
            pair.push(Spec { kind: Kind::Close, num, dialer, len: 0 });
            pair.push(Spec { kind: Kind::Reset, num, dialer, len: 0 });
        }
    }
    if ctx_thorough {
        pair.push(Spec { kind: Kind::Data, num: 3, dialer: true, len: 1 << 20 });
    }
    (all, pair)
}

fn structured_hostile() -> Vec<Vec<u8>> {
    let mut v: Vec<Vec<u8>> = Vec::new();
    let hdrs: [u64; 5] = [7, (5 << 3) | 7, 2, 1, ((1u64 << 60) - 1) << 3 | 2];
    let lens: [u64; 9] = [0, 1, MAX - 1, MAX, MAX + 1, 1 << 32, 1 << 63, u64::MAX, (1 << 21) + 5];
    for h in hdrs {
        for l in lens {
            let mut b = pb::varint_vec(h);
            b.extend(pb::varint_vec(l));
            v.push(b.clone());
            // the same header followed by a few payload bytes
            b.extend([0xAA; 3]);
            v.push(b);
        }
    }
    // complete type-7 frames with payload
    let mut b = pb::varint_vec(7);
    b.extend(pb::varint_vec(4));
    b.extend([1, 2, 3, 4]);
    v.push(b);
    // over-long / overflowing / non-minimal varints as header and as length
    let bad: Vec<Vec<u8>> = vec![vec![0xff; 9], vec![0xff; 10], vec![0xff; 11], vec![0xff, 0xff, 0xff, 0xff, 0xff, 0xff, 0xff, 0xff, 0xff, 0x01], vec![0xff, 0xff, 0xff, 0xff, 0xff, 0xff, 0xff, 0xff, 0xff, 0x02], vec![0x80; 12], vec![0x80, 0x00], vec![0x82, 0x80, 0x00]];
    for x in &bad {
        v.push(x.clone());
        let mut b = vec![0x02];
        b.extend(x);
        v.push(b.clone());
        b.extend([0u8; 4]);
        v.push(b);
    }
    // maximal frame with its full payload, and one byte more declared than allowed with payload present
    let mut b = pb::varint_vec(2);
    b.extend(pb::varint_vec(MAX));
    b.extend(std::iter::repeat(0x55).take(MAX as usize));
    v.push(b);
    let mut b = pb::varint_vec(2);
    b.extend(pb::varint_vec(MAX + 1));
    b.extend(std::iter::repeat(0x55).take(MAX as usize + 1));
    v.push(b);
    v
}

pub fn run(ctx: &Ctx) -> Outcome {
    let mut out = Outcome::default();
    if let Some(case) = &ctx.replay {
        replay(case, &mut out);
        return out;
    }
    let thorough = !ctx.quick();
    let (all, pair) = specs(thorough);
    // ---- single frames, then ordered pairs
    for s in &all {
        roundtrip_all(std::slice::from_ref(s), &mut out);
    }
    out.count("single_frames", all.len() as u64);
    for a in &pair {
        for b in &pair {
            roundtrip_all(&[a.clone(), b.clone()], &mut out);
            out.count("frame_pairs", 1);
        }
    }
    // ---- hostile input
    let alpha: [u8; 6] = [0x00, 0x07, 0x08, 0x7f, 0x80, 0xff];
    let maxlen = ctx.tier.pick(3, 5);
    let mut classes = std::collections::BTreeMap::<&'static str, u64>::new();
    let mut hostile = |bytes: &[u8], out: &mut Outcome| {
        let steps: &[usize] = if bytes.len() > 64 { &[0] } else { &[0, 1] };
        for &step in steps {
            out.evaluations += 1;
            match hostile_case(bytes, step) {
                Ok(class) => {
                    *classes.entry(class).or_insert(0) += 1;
                    if class != "need-more" {
                        out.nontrivial(&format!("h{step} {:02x?}", &bytes[..bytes.len().min(24)]));
                    }
                }
                Err(m) => out.violation(mc::bfs::signature_of(&m), m.clone(), json!({"kind": "hostile", "bytes": hex(bytes), "step": step})),
            }
        }
    };
    enumerate::sequences_upto(alpha.len(), maxlen, |idx| {
        let bytes: Vec<u8> = idx.iter().map(|&i| alpha[i]).collect();
        hostile(&bytes, &mut out);
    });
    let extra = structured_hostile();
    for e in &extra {
        hostile(e, &mut out);
    }
    out.sample(json!({"kind": "hostile", "bytes": hex(&extra[8]), "meaning": "type-7 header with declared length 2^20+1"}));
    for (k, v) in classes {
        out.count(&format!("class_{k}"), v);
    }
    for need in ["class_reject-length", "class_reject-type", "class_decoded", "class_need-more"] {
        if out.get(need) == 0 {
            out.machinery(format!("vacuity: hostile enumeration never produced {need}"));
        }
    }
    if out.get("split_cases") == 0 {
        out.machinery("vacuity: no split case executed");
    }
    out.notes.push("payload interiors are sampled at their ends only (cut points: every prefix byte, first 3 and last 2 payload bytes)".into());
    out
}

fn hex(b: &[u8]) -> String {
    // long payloads are run-length summarised so that replay files stay small
    if b.len() > 256 {
        let head = &b[..16];
        let fill = b[16];
        if b[16..].iter().all(|x| *x == fill) {
            return format!("{}*{:02x}x{}", head.iter().map(|x| format!("{x:02x}")).collect::<String>(), fill, b.len() - 16);
        }
    }
    b.iter().map(|x| format!("{x:02x}")).collect()
}
fn unhex(s: &str) -> Vec<u8> {
    let (head, rest) = match s.split_once('*') {
        Some((h, r)) => (h, Some(r)),
        None => (s, None),
    };
    let mut v: Vec<u8> = (0..head.len() / 2).filter_map(|i| u8::from_str_radix(&head[2 * i..2 * i + 2], 16).ok()).collect();
    if let Some(r) = rest {
        if let Some((f, n)) = r.split_once('x') {
            let f = u8::from_str_radix(f, 16).unwrap_or(0);
            v.extend(std::iter::repeat(f).take(n.parse().unwrap_or(0)));
        }
    }
    v
}

fn replay(case: &Value, out: &mut Outcome) {
    out.evaluations = 1;
    let r = match case["kind"].as_str() {
        Some("rt") => {
            let specs: Vec<Spec> = case["frames"].as_array().map(|a| a.iter().map(Spec::from_json).collect()).unwrap_or_default();
            let cuts: Vec<usize> = serde_json::from_value(case["cuts"].clone()).unwrap_or_default();
            let frames: Vec<VFrame> = specs.iter().enumerate().map(|(k, s)| s.frame((k * 97) as u8)).collect();
            mc::catch(|| encode_frames(&frames).and_then(|enc| roundtrip_case(&frames, &enc, &cuts))).unwrap_or_else(|p| Err(format!("roundtrip-panic :: {p}")))
        }
        Some("hostile") => {
            let bytes = unhex(case["bytes"].as_str().unwrap_or(""));
            hostile_case(&bytes, case["step"].as_u64().unwrap_or(0) as usize).map(|_| ())
        }
        _ => Err("bad replay case".into()),
    };
    if let Err(m) = r {
        out.violation(mc::bfs::signature_of(&m), m, case.clone());
    }
}
