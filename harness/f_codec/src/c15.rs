//! C15 — multistream-select messages round-trip (length prefix <= 2 bytes) and malformed input
//! is rejected safely. Engine E3: complete enumeration of messages / hostile frame bodies
//! through the production `Message::encode`/`decode` and `MessageIO` (hook
//! `multistream_select::verif_tpt`), and of crafted byte streams fed to the public
//! `listener_select_proto` / `dialer_select_proto` futures through `kit::pipe`.
//!
//! Readings settled on (the statement is the bound of the oracle):
//! * "valid negotiation message": header, `ls`, `na`, a protocol name starting with '/'
//!   without '\n', or a list of at most 1000 such names, whose encoding fits one frame
//!   (<= 16383 bytes). `Protocol("/multistream/1.0.0")` is wire-identical to the header line
//!   (an ambiguity of the wire format itself), so it is not counted as a distinct valid message.
//! * Input that is neither the encoding of a valid message nor in one of the three classes the
//!   statement names (oversized frame, > 1000 protocols, name without '/') may be accepted or
//!   rejected; only "no panic" is demanded for it.

use futures::{AsyncReadExt, FutureExt};
use kit::pb;
use kit::pipe::{self, Handle, PipeCfg};
use mc::{enumerate, json, Ctx, Meta, Outcome, Value};
use multistream_select::verif_tpt::{decode_message, encode_message, recv_framed, send_framed, VMessage};
use multistream_select::{dialer_select_proto, listener_select_proto, NegotiationError, ProtocolError, Version};
use std::future::Future;
use std::pin::Pin;
use std::task::{Context, Poll};

pub const META: Meta = Meta {
    level: "exploration",
    rule: "round-trip: Header, ls, na, Protocol(n) for 14 names (\"/\", \"/a\", non-ASCII, lengths 46/126/127/128/16382 = largest that fits a frame, 16383 = first that does not, ...), Protocols lists = all sequences of <=2 (quick) / <=3 (thorough) names over 5 names plus lists of 1000 / 1001 names and lists at the 16383-byte frame limit; each through Message::encode/decode, through the MessageIO sink (framing) and back through the MessageIO stream under every split of the wire bytes into <=3 chunks at prefix/boundary positions. Hostile: every byte string of length <=4 (quick) / <=6 (thorough) over {00,01,0a,2f,7f,80,ff,'l','s','n','a'} as a frame body to Message::decode, structured bodies (names without '/', embedded newline, zero-length entries, >1000 entries, bad UTF-8, over-long varints), and byte streams (every string of length <=3 (quick) / <=4 (thorough) over the alphabet, with and without a valid header in front, plus the structured set framed with prefixes {0,1,7f,80 01,ff 7f,ff ff 01,...}) fed to listener_select_proto, dialer_select_proto(V1) and the V1Lazy Negotiated stream. Non-trivial = distinct round-trip (message, split) cases with >=2 chunks, hostile bodies/streams that were rejected or decoded.",
    explanation: "Complete enumeration (E3) over the stated alphabet; oracle: decode(encode(m)) = m, encoding equals an independent reference encoding, wire = varint prefix of <= 2 bytes + body and messages that do not fit 16383 bytes are refused by the sink; no panic anywhere; frames longer than 16383, lists of more than 1000 protocols and names without leading '/' give Err (never a decoded message, never a successful negotiation).",
    assumptions: &["names are represented by boundary lengths and a few character classes", "after a failed read a Negotiated stream is not used again", "unsigned-varint trusted"],
};

const MAX_FRAME: usize = 16383;
const HEADER: &[u8] = b"/multistream/1.0.0\n";

// ---- independent reference ---------------------------------------------------------------------

fn ref_encode(m: &VMessage) -> Vec<u8> {
    match m {
        VMessage::Header => HEADER.to_vec(),
        VMessage::ListProtocols => b"ls\n".to_vec(),
        VMessage::NotAvailable => b"na\n".to_vec(),
        VMessage::Protocol(p) => {
            let mut v = p.as_bytes().to_vec();
            v.push(b'\n');
            v
        }
        VMessage::Protocols(ps) => {
            let mut v = Vec::new();
            for p in ps {
                pb::varint(p.len() as u64 + 1, &mut v);
                v.extend_from_slice(p.as_bytes());
                v.push(b'\n');
            }
            v.push(b'\n');
            v
        }
    }
}

/// strict unsigned varint: minimal, at most 10 bytes
fn strict_varint(b: &[u8]) -> Option<(u64, usize)> {
    let (v, n) = pb::read_varint(b)?;
    if n > 1 && b[n - 1] == 0 {
        return None;
    }
    if pb::varint_vec(v).len() != n {
        return None;
    }
    Some((v, n))
}

/// What the reference reader makes of a frame body.
#[derive(Debug, PartialEq, Eq)]
enum RefBody {
    /// the encoding of this valid message: decode must return exactly it
    Valid(VMessage),
    /// one of the classes the statement says must be rejected
    MustReject(&'static str),
    /// anything else: only "no panic"
    Other,
}

fn valid_name(n: &[u8]) -> bool {
    n.first() == Some(&b'/') && !n.contains(&b'\n') && std::str::from_utf8(n).is_ok()
}

fn ref_body(b: &[u8]) -> RefBody {
    if b == HEADER {
        return RefBody::Valid(VMessage::Header);
    }
    if b == b"ls\n" {
        return RefBody::Valid(VMessage::ListProtocols);
    }
    if b == b"na\n" {
        return RefBody::Valid(VMessage::NotAvailable);
    }
    // a single line
    if b.last() == Some(&b'\n') && !b[..b.len() - 1].contains(&b'\n') {
        let name = &b[..b.len() - 1];
        if name.is_empty() {
            return RefBody::Valid(VMessage::Protocols(vec![]));
        }
        if name[0] != b'/' {
            // a protocol line whose name does not start with '/' (it cannot be an `ls`
            // response either: that needs one '\n' per entry plus the final one)
            return RefBody::MustReject("name-without-slash");
        }
        return match std::str::from_utf8(name) {
            Ok(s) => RefBody::Valid(VMessage::Protocol(s.to_string())),
            Err(_) => RefBody::Other,
        };
    }
    // an `ls` response: length-prefixed lines, terminated by an empty line
    let mut rest = b;
    let mut names: Vec<String> = Vec::new();
    let mut no_slash = false;
    loop {
        if rest == b"\n" {
            break;
        }
        let Some((l, n)) = strict_varint(rest) else { return RefBody::Other };
        let tail = &rest[n..];
        if l == 0 || l as usize > tail.len() || tail[l as usize - 1] != b'\n' {
            return RefBody::Other;
        }
        let name = &tail[..l as usize - 1];
        if name.first() != Some(&b'/') {
            no_slash = true;
        }
        match std::str::from_utf8(name) {
            Ok(s) => names.push(s.to_string()),
            Err(_) => return RefBody::Other,
        }
        rest = &tail[l as usize..];
    }
    // well-formed list structure
    if names.len() > 1000 {
        return RefBody::MustReject("more-than-1000-protocols");
    }
    if no_slash {
        return RefBody::MustReject("name-without-slash");
    }
    // names inside a list may contain '\n' on the wire (they are length-prefixed); such a list
    // is not the encoding of a *valid* message, so nothing is demanded
    if names.iter().any(|n| !valid_name(n.as_bytes())) {
        return RefBody::Other;
    }
    RefBody::Valid(VMessage::Protocols(names))
}

fn perr(e: &ProtocolError) -> &'static str {
    match e {
        ProtocolError::IoError(_) => "io",
        ProtocolError::InvalidMessage => "invalid-message",
        ProtocolError::InvalidProtocol => "invalid-protocol",
        ProtocolError::TooManyProtocols => "too-many-protocols",
    }
}

fn short(m: &VMessage) -> String {
    match m {
        VMessage::Header => "Header".into(),
        VMessage::ListProtocols => "ls".into(),
        VMessage::NotAvailable => "na".into(),
        VMessage::Protocol(p) if p.len() <= 24 => format!("Protocol({p:?})"),
        VMessage::Protocol(p) => format!("Protocol({:?}.. {} bytes)", &p[..p.char_indices().nth(8).map(|x| x.0).unwrap_or(1)], p.len()),
        VMessage::Protocols(ps) if ps.len() <= 4 && ps.iter().all(|p| p.len() <= 24) => format!("Protocols({ps:?})"),
        VMessage::Protocols(ps) => format!("Protocols({} names, {} bytes)", ps.len(), ps.iter().map(|p| p.len()).sum::<usize>()),
    }
}

// ---- driving futures over a pipe ---------------------------------------------------------------

/// Poll `fut` with a no-op waker; whenever it is pending hand the next chunk to the pipe
/// (direction B->A); after the last chunk close that direction. None = still pending after that.
fn drive<T>(fut: impl Future<Output = T>, h: &Handle, chunks: &[&[u8]]) -> Option<T> {
    let mut fut: Pin<Box<dyn Future<Output = T>>> = Box::pin(fut);
    let w = futures::task::noop_waker();
    let mut cx = Context::from_waker(&w);
    let mut next = 0;
    let mut closed = false;
    for _ in 0..(chunks.len() + 4) * 4 + 64 {
        if let Poll::Ready(v) = fut.as_mut().poll(&mut cx) {
            return Some(v);
        }
        if next < chunks.len() {
            h.inject(false, chunks[next]);
            next += 1;
        } else if !closed {
            h.close(false);
            closed = true;
        }
    }
    None
}

// ---- round trip ---------------------------------------------------------------------------------

fn name_of_len(len: usize, fill: char) -> String {
    let mut s = String::from("/");
    while s.len() < len {
        s.push(fill);
    }
    s
}

fn names() -> Vec<String> {
    vec![
        "/".into(),
        "/a".into(),
        "/aé".into(),
        "/a/b c\t\u{1F600}".into(),
        "/na".into(),
        "/ls".into(),
        "//".into(),
        "/multistream/1.0.1".into(),
        name_of_len(46, 'x'),  // len+1 = 0x2f = '/': an `ls` response starting with '/'
        name_of_len(120, 'n'),
        name_of_len(126, 'p'), // frame body 127: last 1-byte prefix
        name_of_len(127, 'q'), // frame body 128: first 2-byte prefix
        name_of_len(128, 'r'),
        name_of_len(MAX_FRAME - 1, 'z'), // frame body 16383: largest frame
    ]
}

/// One round-trip case. `cuts` split the wire bytes for the receive side.
fn roundtrip_case(m: &VMessage, cuts: Option<&[usize]>) -> Result<&'static str, String> {
    let body = encode_message(m).map_err(|e| format!("valid-message-refused :: {}: {e}", short(m)))?;
    let reference = ref_encode(m);
    if body != reference {
        return Err(format!("encode-differs-from-reference :: {}: {} bytes vs reference {} bytes", short(m), body.len(), reference.len()));
    }
    match decode_message(&body) {
        Ok(d) if d == *m => {}
        Ok(d) => return Err(format!("roundtrip-mismatch :: sent {} decoded {}", short(m), short(&d))),
        Err(e) => return Err(format!("roundtrip-rejected :: {} does not decode: {e}", short(m))),
    }
    // framing through the production sink
    let (a, b) = pipe::pair(PipeCfg::default());
    let h = a.handle();
    let sent = drive(send_framed(a, std::slice::from_ref(m)), &h, &[]);
    let wire = h.take(true);
    drop(b);
    let fits = body.len() <= MAX_FRAME;
    match sent {
        None => return Err(format!("send-pending :: sink never completed for {}", short(m))),
        Some(Err(e)) if fits => return Err(format!("valid-message-refused :: sink refused {} ({} bytes): {e}", short(m), body.len())),
        Some(Err(_)) => {
            if !wire.is_empty() {
                return Err(format!("partial-frame-written :: {} bytes written for the unsendable {}", wire.len(), short(m)));
            }
            return Ok("too-big-refused");
        }
        Some(Ok(_)) if !fits => {
            let pre = pb::read_varint(&wire).map(|x| x.1).unwrap_or(0);
            return Err(format!("prefix-longer-than-2 :: {} ({} body bytes) was framed with a {pre}-byte prefix", short(m), body.len()));
        }
        Some(Ok(_)) => {}
    }
    let prefix = pb::varint_vec(body.len() as u64);
    if prefix.len() > 2 || wire.len() != prefix.len() + body.len() || wire[..prefix.len()] != prefix[..] || wire[prefix.len()..] != body[..] {
        return Err(format!("framing-differs :: {}: wire {} bytes, expected {}-byte prefix + {} body bytes", short(m), wire.len(), prefix.len(), body.len()));
    }
    // and back through the production stream, chunked
    let Some(cuts) = cuts else { return Ok("ok") };
    let (a, b) = pipe::pair(PipeCfg::default());
    let h = a.handle();
    let chunks = enumerate::chunks_at(&wire, cuts);
    let got = drive(recv_framed(a), &h, &chunks);
    drop(b);
    match got {
        None => Err(format!("recv-pending :: stream never ended for {} cuts {cuts:?}", short(m))),
        Some(v) => match v.as_slice() {
            [Ok(d)] if d == m => Ok("ok"),
            other => Err(format!("framed-roundtrip-mismatch :: sent {} cuts {cuts:?} received {:?}", short(m), other.iter().map(|r| r.as_ref().map(short).map_err(|e| e.to_string())).collect::<Vec<_>>())),
        },
    }
}

fn roundtrip_all(m: &VMessage, mj: &Value, out: &mut Outcome) {
    let body_len = ref_encode(m).len();
    let pre = pb::varint_vec(body_len as u64).len();
    let total = pre + body_len;
    let mut pos: Vec<usize> = (1..=(pre + 3)).collect();
    for d in 1..=3 {
        if total > d {
            pos.push(total - d);
        }
    }
    pos.retain(|&c| c >= 1 && c < total);
    pos.sort();
    pos.dedup();
    let mut cutsets: Vec<Vec<usize>> = vec![vec![]];
    if body_len <= MAX_FRAME {
        for i in 0..pos.len() {
            cutsets.push(vec![pos[i]]);
            for j in i + 1..pos.len() {
                cutsets.push(vec![pos[i], pos[j]]);
            }
        }
    }
    for cuts in cutsets {
        out.evaluations += 1;
        if !cuts.is_empty() {
            out.nontrivial(&format!("rt {mj} {cuts:?}"));
            out.count("split_cases", 1);
        }
        if out.evaluations % 1499 == 1 {
            out.sample(json!({"kind": "roundtrip", "message": short(m), "body_len": body_len, "cuts": cuts}));
        }
        match mc::catch(|| roundtrip_case(m, Some(&cuts))).unwrap_or_else(|p| Err(format!("roundtrip-panic :: {p}"))) {
            Ok(c) => out.count(&format!("rt_{c}"), 1),
            Err(e) => out.violation(mc::bfs::signature_of(&e), e, json!({"kind": "rt", "msg": mj, "cuts": cuts})),
        }
    }
}

/// messages are described in replay files by a small JSON form
fn msg_from_json(v: &Value) -> VMessage {
    let name = |v: &Value| -> String {
        match v {
            Value::String(s) => s.clone(),
            o => name_of_len(o["len"].as_u64().unwrap_or(1) as usize, o["fill"].as_str().and_then(|s| s.chars().next()).unwrap_or('x')),
        }
    };
    match v["t"].as_str() {
        Some("header") => VMessage::Header,
        Some("ls") => VMessage::ListProtocols,
        Some("na") => VMessage::NotAvailable,
        Some("protocol") => VMessage::Protocol(name(&v["name"])),
        _ => {
            let mut ps: Vec<String> = v["names"].as_array().map(|a| a.iter().map(name).collect()).unwrap_or_default();
            if let Some(rep) = v["repeat"].as_u64() {
                let base = ps.clone();
                ps = (0..rep as usize).map(|i| base[i % base.len()].clone()).collect();
            }
            VMessage::Protocols(ps)
        }
    }
}

fn name_json(n: &str) -> Value {
    if n.len() > 40 {
        let fill = n.chars().nth(1).unwrap_or('x');
        json!({"len": n.len(), "fill": fill.to_string()})
    } else {
        json!(n)
    }
}

fn roundtrip_messages(thorough: bool) -> Vec<Value> {
    let mut v = vec![json!({"t":"header"}), json!({"t":"ls"}), json!({"t":"na"})];
    for n in names() {
        v.push(json!({"t":"protocol","name": name_json(&n)}));
    }
    // the first name that does not fit a frame
    v.push(json!({"t":"protocol","name": {"len": MAX_FRAME, "fill": "y"}}));
    v.push(json!({"t":"protocol","name": {"len": 70000, "fill": "y"}}));
    // lists: all sequences over a small name set
    let small: Vec<String> = vec!["/".into(), "/a".into(), "/aé".into(), name_of_len(46, 'x'), name_of_len(127, 'q')];
    enumerate::sequences_upto(small.len(), if thorough { 3 } else { 2 }, |idx| {
        v.push(json!({"t":"protocols","names": idx.iter().map(|&i| name_json(&small[i])).collect::<Vec<_>>()}));
    });
    // big lists: exactly 1000 names, and lists at the frame limit
    v.push(json!({"t":"protocols","names":["/a"],"repeat":1000}));
    v.push(json!({"t":"protocols","names":["/a","/b","/"],"repeat":1000}));
    v.push(json!({"t":"protocols","names":["/a","/b","/"],"repeat":999}));
    // 1000 x "/abcdefghijkl" (13 bytes -> 15 per entry) = 15001 bytes: fits; 16 per entry = 16001; 17 -> 17001 does not
    v.push(json!({"t":"protocols","names":[{"len":13,"fill":"k"}],"repeat":1000}));
    v.push(json!({"t":"protocols","names":[{"len":14,"fill":"k"}],"repeat":1000}));
    v.push(json!({"t":"protocols","names":[{"len":15,"fill":"k"}],"repeat":1000}));
    // exactly at the limit: one entry of body length L: varint(2 bytes) + L + final '\n' = 16383 => L = 16380 => name 16379
    v.push(json!({"t":"protocols","names":[{"len":16379,"fill":"w"}]}));
    v.push(json!({"t":"protocols","names":[{"len":16380,"fill":"w"}]}));
    v
}

// ---- hostile frame bodies ----------------------------------------------------------------------

fn hostile_body(b: &[u8]) -> Result<&'static str, String> {
    let r = mc::catch(|| decode_message(b)).map_err(|p| format!("decode-panic :: {p} on body {:02x?}", &b[..b.len().min(24)]))?;
    // whatever else: a decoded message never carries a name without leading '/' and never more
    // than 1000 names
    if let Ok(m) = &r {
        let names: Vec<&String> = match m {
            VMessage::Protocol(p) => vec![p],
            VMessage::Protocols(ps) => ps.iter().collect(),
            _ => vec![],
        };
        if names.len() > 1000 {
            return Err(format!("more-than-1000-accepted :: decoded a list of {} protocols", names.len()));
        }
        if let Some(n) = names.iter().find(|n| !n.starts_with('/')) {
            return Err(format!("name-without-slash-accepted :: decoded name {:?} from body {:02x?}", &n[..n.len().min(16)], &b[..b.len().min(24)]));
        }
    }
    match (ref_body(b), r) {
        (RefBody::Valid(m), Ok(d)) if m == d => Ok("decoded"),
        (RefBody::Valid(m), Ok(d)) => Err(format!("differs-from-reference :: body {:02x?}: decoded {} reference {}", &b[..b.len().min(24)], short(&d), short(&m))),
        (RefBody::Valid(m), Err(e)) => Err(format!("valid-encoding-rejected :: {} ({:02x?}): {e}", short(&m), &b[..b.len().min(24)])),
        (RefBody::MustReject(_), Err(e)) => Ok(match perr(&e) {
            "too-many-protocols" => "reject-too-many",
            "invalid-protocol" => "reject-name",
            _ => "reject-other",
        }),
        (RefBody::MustReject(why), Ok(d)) => Err(format!("{why}-accepted :: body {:02x?} decoded as {}", &b[..b.len().min(24)], short(&d))),
        (RefBody::Other, Ok(_)) => Ok("lenient-accept"),
        (RefBody::Other, Err(_)) => Ok("reject-malformed"),
    }
}

fn ls_body(names: &[&[u8]]) -> Vec<u8> {
    let mut v = Vec::new();
    for n in names {
        pb::varint(n.len() as u64 + 1, &mut v);
        v.extend_from_slice(n);
        v.push(b'\n');
    }
    v.push(b'\n');
    v
}

/// (label, body): structured hostile frame bodies
fn structured_bodies() -> Vec<(&'static str, Vec<u8>)> {
    let many = |n: usize, name: &[u8]| ls_body(&vec![name; n]);
    vec![
        ("name without slash", b"a\n".to_vec()),
        ("name without slash 2", b"proto/1\n".to_vec()),
        ("almost na", b"na".to_vec()),
        ("almost ls", b"ls\n\n".to_vec()),
        ("embedded newline", b"/a\nb\n".to_vec()),
        ("no trailing newline", b"/a".to_vec()),
        ("ls entry without slash", ls_body(&[b"/a", b"b"])),
        ("ls single entry without slash", ls_body(&[b"b"])),
        ("ls entry empty name", ls_body(&[b""])),
        ("ls zero length entry", vec![0x00, b'\n']),
        ("ls zero length entry then valid", { let mut v = vec![0x00]; v.extend(ls_body(&[b"/a"])); v }),
        ("ls length beyond body", vec![0x05, b'/', b'a', b'\n', b'\n']),
        ("ls entry not newline terminated", vec![0x03, b'/', b'a', b'b', b'\n']),
        ("ls missing final newline", vec![0x03, b'/', b'a', b'\n']),
        ("ls over-long varint", { let mut v = vec![0xff; 10]; v.push(0x01); v.extend(b"/a\n\n"); v }),
        ("ls non-minimal varint", vec![0x83, 0x00, b'/', b'a', b'\n', b'\n']),
        ("ls huge varint", { let mut v = pb::varint_vec(u64::MAX); v.extend(b"/a\n\n"); v }),
        ("ls bad utf8", ls_body(&[&[b'/', 0xff, 0xfe]])),
        ("name bad utf8", vec![b'/', 0xff, 0xfe, b'\n']),
        ("1000 protocols", many(1000, b"/a")),
        ("1001 protocols", many(1001, b"/a")),
        ("1002 protocols", many(1002, b"/a")),
        ("2000 protocols", many(2000, b"/")),
        ("1001 protocols, last without slash", { let mut n: Vec<&[u8]> = vec![b"/a"; 1000]; n.push(b"b"); ls_body(&n) }),
        ("1000 protocols then garbage", { let mut v = many(1000, b"/a"); v.pop(); v.push(0x7f); v }),
        ("empty", vec![]),
        ("header without newline", b"/multistream/1.0.0".to_vec()),
        ("header twice", b"/multistream/1.0.0\n/multistream/1.0.0\n".to_vec()),
    ]
}

// ---- hostile byte streams into the public futures -----------------------------------------------

#[derive(Clone, Copy, Debug, PartialEq, Eq)]
enum Role {
    Listener,
    DialerV1,
    DialerLazy,
}
impl Role {
    fn name(self) -> &'static str {
        match self {
            Role::Listener => "listener",
            Role::DialerV1 => "dialer-v1",
            Role::DialerLazy => "dialer-lazy",
        }
    }
    fn from(s: &str) -> Role {
        match s {
            "listener" => Role::Listener,
            "dialer-v1" => Role::DialerV1,
            _ => Role::DialerLazy,
        }
    }
}

/// Outcome classes of one negotiation over a scripted input stream (then EOF).
fn negotiate(role: Role, input: &[u8], chunked: bool) -> Result<String, String> {
    let (a, b) = pipe::pair(PipeCfg::default());
    let h = a.handle();
    let one: Vec<&[u8]> = if chunked { input.chunks(1).collect() } else { vec![input] };
    let res: Option<Result<String, String>> = mc::catch(|| match role {
        Role::Listener => drive(listener_select_proto(a, vec!["/a", "/b"]).map(|r| r.map(|(p, _io)| p.to_string()).map_err(nerr)), &h, &one),
        Role::DialerV1 => drive(dialer_select_proto(a, vec!["/a", "/b"], Version::V1).map(|r| r.map(|(p, _io)| p.to_string()).map_err(nerr)), &h, &one),
        Role::DialerLazy => drive(
            async move {
                match dialer_select_proto(a, vec!["/a"], Version::V1Lazy).await {
                    Ok((p, mut io)) => {
                        // the optimistic dialer learns the verdict on its first read
                        let mut buf = [0u8; 1];
                        match io.read(&mut buf).await {
                            Ok(_) => Ok(p.to_string()),
                            Err(e) => Err(format!("read: {:?}", e.kind())),
                        }
                    }
                    Err(e) => Err(nerr(e)),
                }
            },
            &h,
            &one,
        ),
    })
    .map_err(|p| format!("negotiation-panic :: {} panicked: {p} (at {:?})", role.name(), mc::shim::last_panic_loc()))?;
    drop(b);
    match res {
        None => Err(format!("negotiation-stuck :: {} still pending after the input ended", role.name())),
        Some(Ok(p)) => Ok(format!("ok {p}")),
        Some(Err(e)) => Ok(format!("err {e}")),
    }
}

fn nerr(e: NegotiationError) -> String {
    match e {
        NegotiationError::Failed => "failed".into(),
        NegotiationError::ProtocolError(p) => format!("protocol:{}", perr(&p)),
    }
}

/// (label, stream after the header frame, must the negotiation fail?)
fn structured_streams() -> Vec<(String, Vec<u8>, bool)> {
    let mut v: Vec<(String, Vec<u8>, bool)> = Vec::new();
    // every structured body, properly framed
    for (label, body) in structured_bodies() {
        if body.len() > MAX_FRAME {
            continue;
        }
        let must = matches!(ref_body(&body), RefBody::MustReject(_));
        v.push((format!("framed: {label}"), pb::frame(&body), must));
    }
    // length prefixes: {0, 1, 0x7f, 0x80 0x01, 0xff 0x7f, 0xff 0xff 0x01, ...} with and without data
    let prefixes: Vec<(&str, Vec<u8>, bool)> = vec![
        ("prefix 0", vec![0x00], false),
        ("prefix 1", vec![0x01], false),
        ("prefix 7f", vec![0x7f], false),
        ("prefix 80 01", vec![0x80, 0x01], false),
        ("prefix ff 7f (16383)", vec![0xff, 0x7f], false),
        ("prefix 80 80 01 (16384, 3 bytes)", vec![0x80, 0x80, 0x01], true),
        ("prefix ff ff 01", vec![0xff, 0xff, 0x01], true),
        ("prefix ff ff ff ff 0f", vec![0xff, 0xff, 0xff, 0xff, 0x0f], true),
        ("prefix 80 00 (non-minimal)", vec![0x80, 0x00], false),
        ("prefix 80", vec![0x80], false),
    ];
    for (l, p, must) in prefixes {
        v.push((format!("{l}, no data"), p.clone(), must));
        let mut q = p.clone();
        q.extend(b"/a\n");
        v.push((format!("{l} + /a"), q, must));
        let mut q = p.clone();
        q.extend(std::iter::repeat(b'/').take(20000));
        v.push((format!("{l} + 20000 bytes"), q, must));
    }
    // a maximal frame holding one very long (valid) name, and an oversized one
    let mut body = name_of_len(MAX_FRAME - 1, 'z').into_bytes();
    body.push(b'\n');
    v.push(("max frame name".into(), pb::frame(&body), false));
    let mut body = name_of_len(MAX_FRAME, 'z').into_bytes();
    body.push(b'\n');
    v.push(("oversized frame name".into(), pb::frame(&body), true));
    // benign continuations, for the vacuity guard
    v.push(("propose /a".into(), pb::frame(b"/a\n"), false));
    v.push(("propose /c then /b".into(), [pb::frame(b"/c\n"), pb::frame(b"/b\n")].concat(), false));
    v.push(("na then confirm /b".into(), [pb::frame(b"na\n"), pb::frame(b"/b\n")].concat(), false));
    v.push(("ls".into(), pb::frame(b"ls\n"), false));
    v
}

fn stream_case(role: Role, with_header: bool, tail: &[u8], chunked: bool, must_fail: bool) -> Result<String, String> {
    let mut input = if with_header { pb::frame(HEADER) } else { vec![] };
    input.extend_from_slice(tail);
    let r = negotiate(role, &input, chunked)?;
    if must_fail && r.starts_with("ok") {
        return Err(format!("hostile-stream-accepted :: {} negotiated {r:?} on a stream that must be rejected", role.name()));
    }
    Ok(r)
}

// ---- run --------------------------------------------------------------------------------------------

const ALPHA: [u8; 11] = [0x00, 0x01, 0x0a, 0x2f, 0x7f, 0x80, 0xff, b'l', b's', b'n', b'a'];

fn hexs(b: &[u8]) -> String {
    b.iter().map(|x| format!("{x:02x}")).collect()
}
fn unhex(s: &str) -> Vec<u8> {
    (0..s.len() / 2).filter_map(|i| u8::from_str_radix(&s[2 * i..2 * i + 2], 16).ok()).collect()
}

pub fn run(ctx: &Ctx) -> Outcome {
    let mut out = Outcome::default();
    if let Some(case) = &ctx.replay {
        replay(case, &mut out);
        return out;
    }
    let thorough = !ctx.quick();
    // ---- A: round trips
    let msgs = roundtrip_messages(thorough);
    for mj in &msgs {
        let m = msg_from_json(mj);
        roundtrip_all(&m, mj, &mut out);
    }
    out.count("roundtrip_messages", msgs.len() as u64);
    // ---- B: hostile frame bodies
    let mut classes = std::collections::BTreeMap::<String, u64>::new();
    let mut body_case = |b: &[u8], label: Option<&str>, out: &mut Outcome| {
        out.evaluations += 1;
        match hostile_body(b) {
            Ok(c) => {
                *classes.entry(format!("body_{c}")).or_insert(0) += 1;
                out.nontrivial(&format!("b {}", hexs(&b[..b.len().min(40)])));
            }
            Err(e) => {
                let case = match label {
                    Some(l) => json!({"kind": "body-structured", "label": l}),
                    None => json!({"kind": "body", "bytes": hexs(b)}),
                };
                out.violation(mc::bfs::signature_of(&e), e, case)
            }
        }
    };
    enumerate::sequences_upto(ALPHA.len(), ctx.tier.pick(4, 6), |idx| {
        let b: Vec<u8> = idx.iter().map(|&i| ALPHA[i]).collect();
        body_case(&b, None, &mut out);
    });
    for (label, b) in structured_bodies() {
        body_case(&b, Some(label), &mut out);
    }
    // ---- C: hostile streams into the public futures
    let roles = [Role::Listener, Role::DialerV1, Role::DialerLazy];
    let mut stream = |role: Role, hdr: bool, tail: &[u8], chunked: bool, must: bool, case: Value, out: &mut Outcome| {
        out.evaluations += 1;
        match stream_case(role, hdr, tail, chunked, must) {
            Ok(c) => {
                let class = if c.starts_with("ok") { "ok".to_string() } else { c.clone() };
                *classes.entry(format!("{}_{}", role.name(), class)).or_insert(0) += 1;
                if must {
                    *classes.entry("must_reject_streams_rejected".into()).or_insert(0) += 1;
                }
                out.nontrivial(&format!("s {case}"));
            }
            Err(e) => out.violation(format!("{} {}", mc::bfs::signature_of(&e), role.name()), e, case),
        }
    };
    let streams = structured_streams();
    for role in roles {
        for (label, tail, must) in &streams {
            for chunked in [false, true] {
                if chunked && tail.len() > 6000 && !thorough {
                    continue;
                }
                stream(role, true, tail, chunked, *must, json!({"kind": "stream-structured", "role": role.name(), "label": label, "chunked": chunked}), &mut out);
            }
        }
        let maxlen = ctx.tier.pick(3, 4);
        enumerate::sequences_upto(ALPHA.len(), maxlen, |idx| {
            let b: Vec<u8> = idx.iter().map(|&i| ALPHA[i]).collect();
            for hdr in [true, false] {
                stream(role, hdr, &b, false, false, json!({"kind": "stream", "role": role.name(), "header": hdr, "bytes": hexs(&b)}), &mut out);
            }
        });
    }
    out.sample(json!({"kind": "hostile-body", "label": "1001 protocols", "expected": "Err(TooManyProtocols)"}));
    out.sample(json!({"kind": "hostile-stream", "role": "listener", "input": "header frame + ff ff 01 + /a\\n", "expected": "Err"}));
    for (k, v) in classes {
        out.count(&k, v);
    }
    for need in ["rt_ok", "rt_too-big-refused", "split_cases", "body_decoded", "body_reject-too-many", "body_reject-name", "body_reject-malformed", "listener_ok", "dialer-v1_ok", "dialer-lazy_ok", "must_reject_streams_rejected"] {
        if out.get(need) == 0 {
            out.machinery(format!("vacuity: counter {need} is zero"));
        }
    }
    out.notes.push("Protocol(\"/multistream/1.0.0\") is wire-identical to the header line and is not counted as a distinct valid message".into());
    out
}

fn replay(case: &Value, out: &mut Outcome) {
    out.evaluations = 1;
    let r: Result<(), String> = match case["kind"].as_str() {
        Some("rt") => {
            let m = msg_from_json(&case["msg"]);
            let cuts: Vec<usize> = serde_json::from_value(case["cuts"].clone()).unwrap_or_default();
            mc::catch(|| roundtrip_case(&m, Some(&cuts))).unwrap_or_else(|p| Err(format!("roundtrip-panic :: {p}"))).map(|_| ())
        }
        Some("body") => hostile_body(&unhex(case["bytes"].as_str().unwrap_or(""))).map(|_| ()),
        Some("body-structured") => match structured_bodies().into_iter().find(|(l, _)| Some(*l) == case["label"].as_str()) {
            Some((_, b)) => hostile_body(&b).map(|_| ()),
            None => Err("unknown structured body".into()),
        },
        Some("stream") => {
            let role = Role::from(case["role"].as_str().unwrap_or(""));
            stream_case(role, case["header"].as_bool().unwrap_or(true), &unhex(case["bytes"].as_str().unwrap_or("")), false, false).map(|_| ()).map_err(|e| format!("{e}"))
        }
        Some("stream-structured") => {
            let role = Role::from(case["role"].as_str().unwrap_or(""));
            match structured_streams().into_iter().find(|(l, _, _)| Some(l.as_str()) == case["label"].as_str()) {
                Some((_, tail, must)) => stream_case(role, true, &tail, case["chunked"].as_bool().unwrap_or(false), must).map(|_| ()),
                None => Err("unknown structured stream".into()),
            }
        }
        _ => Err("bad replay case".into()),
    };
    if let Err(m) = r {
        // stream signatures carry the role
        let sig = match case["kind"].as_str() {
            Some("stream") | Some("stream-structured") => format!("{} {}", mc::bfs::signature_of(&m), case["role"].as_str().unwrap_or("")),
            _ => mc::bfs::signature_of(&m),
        };
        out.violation(sig, m, case.clone());
    }
}
