//! Fixed identities of every key type (never generated), and small independent reference
//! implementations (SHA-256, base58, DER walking) used by the oracles of this family.

use libp2p_identity::{ecdsa, secp256k1, Keypair};

pub const KINDS: [&str; 4] = ["ed25519", "secp256k1", "ecdsa", "rsa"];

pub fn ed(i: u8) -> Keypair {
    kit::ids::keypair(i)
}
pub fn secp(i: u8) -> Keypair {
    let mut b = [0x11u8; 32];
    b[0] = i.wrapping_add(1);
    b[31] = 0x42;
    let sk = secp256k1::SecretKey::try_from_bytes(&mut b).expect("valid secp256k1 scalar");
    secp256k1::Keypair::from(sk).into()
}
pub fn ecdsa(i: u8) -> Keypair {
    let mut b = [0x22u8; 32];
    b[0] = i.wrapping_add(1);
    b[31] = 0x43;
    let sk = ecdsa::SecretKey::try_from_bytes(b).expect("valid p256 scalar");
    ecdsa::Keypair::from(sk).into()
}
pub const RSA_2048: &[u8] = include_bytes!("/repo/identity/src/test/rsa-2048.pk8");
pub const RSA_3072: &[u8] = include_bytes!("/repo/identity/src/test/rsa-3072.pk8");
pub const RSA_4096: &[u8] = include_bytes!("/repo/identity/src/test/rsa-4096.pk8");
pub fn rsa_pk8(i: u8) -> &'static [u8] {
    match i % 3 {
        0 => RSA_2048,
        1 => RSA_3072,
        _ => RSA_4096,
    }
}
pub fn rsa(i: u8) -> Keypair {
    let mut der = rsa_pk8(i).to_vec();
    Keypair::rsa_from_pkcs8(&mut der).expect("test key parses")
}
/// key pair number `i` of kind `k` (index into KINDS)
pub fn key(kind: usize, i: u8) -> Keypair {
    match kind {
        0 => ed(i),
        1 => secp(i),
        2 => ecdsa(i),
        _ => rsa(i),
    }
}

/// The PKCS#1 RSAPrivateKey inside a PKCS#8 PrivateKeyInfo (SEQ { INT 0, SEQ alg, OCTET STRING pkcs1 }).
pub fn pkcs1_of_pkcs8(der: &[u8]) -> Option<Vec<u8>> {
    let (tag, body, _) = der_tlv(der)?;
    if tag != 0x30 {
        return None;
    }
    let (_, _, rest) = der_tlv(body)?; // version
    let (_, _, rest) = der_tlv(rest)?; // algorithm
    let (tag, v, _) = der_tlv(rest)?;
    if tag != 0x04 {
        return None;
    }
    Some(v.to_vec())
}

/// one DER TLV: (tag, value, rest)
pub fn der_tlv(b: &[u8]) -> Option<(u8, &[u8], &[u8])> {
    let tag = *b.first()?;
    let l0 = *b.get(1)? as usize;
    let (len, hdr) = if l0 < 0x80 {
        (l0, 2)
    } else {
        let n = l0 & 0x7f;
        if n == 0 || n > 4 {
            return None;
        }
        let mut l = 0usize;
        for i in 0..n {
            l = (l << 8) | *b.get(2 + i)? as usize;
        }
        (l, 2 + n)
    };
    if b.len() < hdr + len {
        return None;
    }
    Some((tag, &b[hdr..hdr + len], &b[hdr + len..]))
}

// ------------------------------------------------------------------------------------------
// SHA-256 (FIPS 180-4), independent of the `sha2` crate used by the subject.

const K: [u32; 64] = [
    0x428a2f98, 0x71374491, 0xb5c0fbcf, 0xe9b5dba5, 0x3956c25b, 0x59f111f1, 0x923f82a4, 0xab1c5ed5, 0xd807aa98, 0x12835b01, 0x243185be, 0x550c7dc3, 0x72be5d74, 0x80deb1fe, 0x9bdc06a7, 0xc19bf174, 0xe49b69c1, 0xefbe4786,
    0x0fc19dc6, 0x240ca1cc, 0x2de92c6f, 0x4a7484aa, 0x5cb0a9dc, 0x76f988da, 0x983e5152, 0xa831c66d, 0xb00327c8, 0xbf597fc7, 0xc6e00bf3, 0xd5a79147, 0x06ca6351, 0x14292967, 0x27b70a85, 0x2e1b2138, 0x4d2c6dfc, 0x53380d13,
    0x650a7354, 0x766a0abb, 0x81c2c92e, 0x92722c85, 0xa2bfe8a1, 0xa81a664b, 0xc24b8b70, 0xc76c51a3, 0xd192e819, 0xd6990624, 0xf40e3585, 0x106aa070, 0x19a4c116, 0x1e376c08, 0x2748774c, 0x34b0bcb5, 0x391c0cb3, 0x4ed8aa4a,
    0x5b9cca4f, 0x682e6ff3, 0x748f82ee, 0x78a5636f, 0x84c87814, 0x8cc70208, 0x90befffa, 0xa4506ceb, 0xbef9a3f7, 0xc67178f2,
];

pub fn sha256(data: &[u8]) -> [u8; 32] {
    let mut h: [u32; 8] = [0x6a09e667, 0xbb67ae85, 0x3c6ef372, 0xa54ff53a, 0x510e527f, 0x9b05688c, 0x1f83d9ab, 0x5be0cd19];
    let mut m = data.to_vec();
    let bitlen = (data.len() as u64).wrapping_mul(8);
    m.push(0x80);
    while m.len() % 64 != 56 {
        m.push(0);
    }
    m.extend_from_slice(&bitlen.to_be_bytes());
    for block in m.chunks(64) {
        let mut w = [0u32; 64];
        for i in 0..16 {
            w[i] = u32::from_be_bytes([block[4 * i], block[4 * i + 1], block[4 * i + 2], block[4 * i + 3]]);
        }
        for i in 16..64 {
            let s0 = w[i - 15].rotate_right(7) ^ w[i - 15].rotate_right(18) ^ (w[i - 15] >> 3);
            let s1 = w[i - 2].rotate_right(17) ^ w[i - 2].rotate_right(19) ^ (w[i - 2] >> 10);
            w[i] = w[i - 16].wrapping_add(s0).wrapping_add(w[i - 7]).wrapping_add(s1);
        }
        let mut v = h;
        for i in 0..64 {
            let s1 = v[4].rotate_right(6) ^ v[4].rotate_right(11) ^ v[4].rotate_right(25);
            let ch = (v[4] & v[5]) ^ (!v[4] & v[6]);
            let t1 = v[7].wrapping_add(s1).wrapping_add(ch).wrapping_add(K[i]).wrapping_add(w[i]);
            let s0 = v[0].rotate_right(2) ^ v[0].rotate_right(13) ^ v[0].rotate_right(22);
            let maj = (v[0] & v[1]) ^ (v[0] & v[2]) ^ (v[1] & v[2]);
            let t2 = s0.wrapping_add(maj);
            v[7] = v[6];
            v[6] = v[5];
            v[5] = v[4];
            v[4] = v[3].wrapping_add(t1);
            v[3] = v[2];
            v[2] = v[1];
            v[1] = v[0];
            v[0] = t1.wrapping_add(t2);
        }
        for i in 0..8 {
            h[i] = h[i].wrapping_add(v[i]);
        }
    }
    let mut out = [0u8; 32];
    for i in 0..8 {
        out[4 * i..4 * i + 4].copy_from_slice(&h[i].to_be_bytes());
    }
    out
}

// ------------------------------------------------------------------------------------------
// base58 (bitcoin alphabet), independent of the `bs58` crate used by the subject.

pub const B58: &[u8; 58] = b"123456789ABCDEFGHJKLMNPQRSTUVWXYZabcdefghijkmnopqrstuvwxyz";

pub fn b58_decode(s: &str) -> Option<Vec<u8>> {
    let mut num: Vec<u8> = Vec::new(); // big-endian base-256
    let mut zeros = 0;
    let mut leading = true;
    for c in s.chars() {
        if !c.is_ascii() {
            return None;
        }
        let d = B58.iter().position(|x| *x == c as u8)? as u32;
        if leading && d == 0 {
            zeros += 1;
            continue;
        }
        leading = false;
        let mut carry = d;
        for b in num.iter_mut().rev() {
            let v = (*b as u32) * 58 + carry;
            *b = (v & 0xff) as u8;
            carry = v >> 8;
        }
        while carry > 0 {
            num.insert(0, (carry & 0xff) as u8);
            carry >>= 8;
        }
    }
    let mut out = vec![0u8; zeros];
    out.extend(num);
    Some(out)
}

pub fn b58_encode(data: &[u8]) -> String {
    let zeros = data.iter().take_while(|b| **b == 0).count();
    let mut digits: Vec<u8> = Vec::new(); // little-endian base-58
    for &byte in &data[zeros..] {
        let mut carry = byte as u32;
        for d in digits.iter_mut() {
            let v = (*d as u32) * 256 + carry;
            *d = (v % 58) as u8;
            carry = v / 58;
        }
        while carry > 0 {
            digits.push((carry % 58) as u8);
            carry /= 58;
        }
    }
    let mut s = String::new();
    for _ in 0..zeros {
        s.push('1');
    }
    for d in digits.iter().rev() {
        s.push(B58[*d as usize] as char);
    }
    s
}

pub fn hex(b: &[u8]) -> String {
    b.iter().map(|x| format!("{x:02x}")).collect()
}
pub fn unhex(s: &str) -> Vec<u8> {
    (0..s.len() / 2).map(|i| u8::from_str_radix(&s[2 * i..2 * i + 2], 16).unwrap_or(0)).collect()
}
