//! C18 — libp2p TLS certificates bind the peer id to a proof of key possession (E3 fault
//! enumeration on generated certificates + structural edits built with rcgen).
//!
//! Subject: `libp2p_tls::certificate::{generate, parse}` and `P2pCertificate::peer_id`.
//!
//! The statement is one-directional ("accepted only if …"): the oracle demands *rejection* for
//! every certificate that violates a listed condition, and for every accepted certificate that the
//! peer id is the generating host key's id. Acceptance is demanded only of untouched generated
//! certificates (vacuity guard / sanity). Open cases (either answer is fine, peer id judged if
//! accepted): non-critical libp2p extension, unknown non-critical extension, P-384 / Ed25519
//! certificate keys, trailing bytes after the certificate.
//!
//! Entropy: `generate` draws the certificate key and the ECDSA nonce from ring, which may bypass the
//! getrandom shim, so certificate *bytes* differ from run to run. Only verdict classes are observed.
//! To keep the enumeration size identical in every run, base certificates are regenerated until
//! their DER length equals the most likely length for the host key type (ECDSA signatures are
//! 70–72 bytes long); a violation's replay case carries the exact DER it was found on.

use crate::edit::{all_edits, masks_all, masks_bits, Edit};
use crate::keys::{self, hex, unhex};
use libp2p_identity::{Keypair, PeerId};
use libp2p_tls::certificate;
use mc::{json, Ctx, Meta, Outcome, Value};
use rustls_pki_types::CertificateDer;
use std::collections::HashMap;
use std::sync::{Mutex, OnceLock};

pub const META: Meta = Meta {
    level: "fault_enumeration",
    rule: "per host key type (ed25519, secp256k1, ecdsa, rsa-2048): a certificate from certificate::generate, every single-byte substitution (8 one-bit masks + 0xff quick, all 255 values thorough), every truncation and 1-byte extension of its DER; 26 structural variants built with rcgen per host key type (no / two / non-critical libp2p extension, unknown critical / non-critical extension, expired, not yet valid, extension signed by another host key, for another certificate key, without the prefix, with a wrong prefix, empty / garbage signature or key, another host's complete extension, not self-signed, signature-algorithm OID patched to SHA-224 / SHA-1-length variants, P-384 and Ed25519 certificate keys, truncated SignedKey). Non-trivial = every mutated or structurally edited certificate.",
    explanation: "Fault enumeration (E3) through certificate::parse. Oracle: a certificate violating a listed condition is rejected; whatever is accepted reports the peer id of the host key that generated it; untouched generated certificates are accepted; no panic.",
    assumptions: &["x509-parser, ring, rcgen, yasna trusted", "certificate bytes are not reproducible across runs (ring entropy); verdict classes only; violations carry the exact DER", "validity is judged against the real clock: variants use years 2000 and 3000", "a correctly signed SHA-1 / SHA-224 certificate cannot be produced with the available signers; the unsupported-algorithm variants patch the OID of a SHA-256 certificate"],
};

const P2P_EXT_OID: [u64; 9] = [1, 3, 6, 1, 4, 1, 53594, 1, 1];
const PREFIX: &[u8] = b"libp2p-tls-handshake:";

fn der(tag: u8, content: &[u8]) -> Vec<u8> {
    let mut v = vec![tag];
    let n = content.len();
    if n < 0x80 {
        v.push(n as u8);
    } else if n < 0x100 {
        v.extend_from_slice(&[0x81, n as u8]);
    } else {
        v.extend_from_slice(&[0x82, (n >> 8) as u8, n as u8]);
    }
    v.extend_from_slice(content);
    v
}
fn signed_key(pk: &[u8], sig: &[u8]) -> Vec<u8> {
    der(0x30, &[der(0x04, pk), der(0x04, sig)].concat())
}

fn verdict(bytes: &[u8]) -> Result<Option<PeerId>, String> {
    let c = CertificateDer::from(bytes.to_vec());
    mc::catch(|| certificate::parse(&c).ok().map(|p| p.peer_id())).map_err(|p| format!("tls-parse-panic :: {p} at {:?}", mc::shim::last_panic_loc()))
}

/// target DER length of a generated certificate per host key type (most likely length)
fn base_cert(kind: usize) -> Result<Vec<u8>, String> {
    static CACHE: OnceLock<Mutex<HashMap<usize, Vec<u8>>>> = OnceLock::new();
    let m = CACHE.get_or_init(Default::default);
    if let Some(v) = m.lock().unwrap().get(&kind) {
        return Ok(v.clone());
    }
    if let Ok(h) = std::env::var(format!("C18_BASE_{kind}")) {
        let d = unhex(&h);
        m.lock().unwrap().insert(kind, d.clone());
        return Ok(d);
    }
    let kp = keys::key(kind, 0);
    let mut seen = Vec::new();
    for _ in 0..400 {
        let (cert, _key) = mc::catch(|| certificate::generate(&kp)).map_err(|p| format!("tls-generate-panic :: {p}"))?.map_err(|e| format!("tls-generate-fails :: {e}"))?;
        let d: Vec<u8> = cert.as_ref().to_vec();
        if d.len() == TARGET_LEN[kind] {
            m.lock().unwrap().insert(kind, d.clone());
            return Ok(d);
        }
        seen.push(d.len());
    }
    seen.sort();
    seen.dedup();
    Err(format!("harness: no generated {} certificate had the target length {} (seen {:?})", keys::KINDS[kind], TARGET_LEN[kind], seen))
}
// modes of the length distributions measured over 120 generated certificates per key type
const TARGET_LEN: [usize; 4] = [391, 401, 462, 860];

// ---------------------------------------------------------------------------------------------
// structural variants

const VARIANTS: [&str; 26] = [
    "baseline",
    "ext-non-critical",
    "no-ext",
    "two-ext-identical",
    "two-ext-second-foreign",
    "two-ext-first-foreign",
    "extra-unknown-critical",
    "extra-unknown-non-critical",
    "expired",
    "not-yet-valid",
    "sig-by-other-host",
    "sig-over-other-cert-key",
    "sig-without-prefix",
    "sig-wrong-prefix",
    "sig-empty",
    "sig-garbage",
    "key-garbage",
    "foreign-complete-extension",
    "not-self-signed",
    "alg-oid-sha224-both",
    "alg-oid-sha224-outer",
    "alg-oid-sha224-inner",
    "cert-key-p384",
    "cert-key-ed25519",
    "signed-key-truncated",
    "signed-key-trailing",
];

#[derive(PartialEq, Debug, Clone, Copy)]
enum Exp {
    Accept,
    Reject,
    Open,
}

fn build_variant(kind: usize, variant: &str) -> Result<(Vec<u8>, Exp), String> {
    let host = keys::key(kind, 0);
    let other = keys::key((kind + 1) % 4, 1);
    let e = |x: rcgen::Error| format!("harness: rcgen: {x}");
    let alg: &'static rcgen::SignatureAlgorithm = match variant {
        "cert-key-p384" => &rcgen::PKCS_ECDSA_P384_SHA384,
        "cert-key-ed25519" => &rcgen::PKCS_ED25519,
        _ => &rcgen::PKCS_ECDSA_P256_SHA256,
    };
    let cert_key = rcgen::KeyPair::generate_for(alg).map_err(e)?;
    let other_cert_key = rcgen::KeyPair::generate_for(&rcgen::PKCS_ECDSA_P256_SHA256).map_err(e)?;
    let spki = cert_key.public_key_der();
    let sign = |k: &Keypair, m: &[u8]| k.sign(m).map_err(|e| format!("harness: sign: {e}"));
    let msg = [PREFIX, &spki].concat();
    let host_pk = host.public().encode_protobuf();
    let good = signed_key(&host_pk, &sign(&host, &msg)?);
    let foreign = signed_key(&other.public().encode_protobuf(), &sign(&other, &msg)?);
    let mut exts: Vec<(Vec<u8>, bool)> = Vec::new(); // (content, critical) for the libp2p OID
    let mut exp = Exp::Reject;
    match variant {
        "baseline" => {
            exts.push((good.clone(), true));
            exp = Exp::Accept;
        }
        "cert-key-p384" | "cert-key-ed25519" | "extra-unknown-non-critical" => {
            exts.push((good.clone(), true));
            exp = Exp::Open;
        }
        "ext-non-critical" => {
            exts.push((good.clone(), false));
            exp = Exp::Open;
        }
        "no-ext" => {}
        "two-ext-identical" => {
            exts.push((good.clone(), true));
            exts.push((good.clone(), true));
        }
        "two-ext-second-foreign" => {
            exts.push((good.clone(), true));
            exts.push((foreign.clone(), true));
        }
        "two-ext-first-foreign" => {
            exts.push((foreign.clone(), true));
            exts.push((good.clone(), true));
        }
        "sig-by-other-host" => exts.push((signed_key(&host_pk, &sign(&other, &msg)?), true)),
        "sig-over-other-cert-key" => exts.push((signed_key(&host_pk, &sign(&host, &[PREFIX, &other_cert_key.public_key_der()].concat())?), true)),
        "sig-without-prefix" => exts.push((signed_key(&host_pk, &sign(&host, &spki)?), true)),
        "sig-wrong-prefix" => exts.push((signed_key(&host_pk, &sign(&host, &[b"libp2p-tls-handshake;".as_slice(), &spki].concat())?), true)),
        "sig-empty" => exts.push((signed_key(&host_pk, &[]), true)),
        "sig-garbage" => exts.push((signed_key(&host_pk, &[0xaa; 64]), true)),
        "key-garbage" => exts.push((signed_key(&[0x08, 0x01, 0x12, 0x02, 1, 2], &sign(&host, &msg)?), true)),
        "foreign-complete-extension" => {
            // a complete, valid extension of another host: the certificate is that host's certificate
            exts.push((foreign.clone(), true));
            exp = Exp::Open;
        }
        "signed-key-truncated" => {
            let mut g = good.clone();
            g.truncate(g.len() - 3);
            exts.push((g, true));
        }
        "signed-key-trailing" => {
            let mut g = good.clone();
            g.push(0);
            exts.push((g, true));
            exp = Exp::Open;
        }
        _ => exts.push((good.clone(), true)),
    }
    let mut params = rcgen::CertificateParams::default();
    params.distinguished_name = rcgen::DistinguishedName::new();
    params.serial_number = Some(rcgen::SerialNumber::from_slice(&[0x42; 8]));
    for (content, critical) in exts {
        let mut x = rcgen::CustomExtension::from_oid_content(&P2P_EXT_OID, content);
        x.set_criticality(critical);
        params.custom_extensions.push(x);
    }
    match variant {
        "extra-unknown-critical" | "extra-unknown-non-critical" => {
            let mut x = rcgen::CustomExtension::from_oid_content(&[1, 2, 3, 4, 5, 6], der(0x04, b"hello"));
            x.set_criticality(variant == "extra-unknown-critical");
            params.custom_extensions.push(x);
        }
        "expired" => params.not_after = rcgen::date_time_ymd(2000, 1, 1),
        "not-yet-valid" => params.not_before = rcgen::date_time_ymd(3000, 1, 1),
        _ => {}
    }
    let cert = if variant == "not-self-signed" {
        let issuer_params = rcgen::CertificateParams::default();
        let issuer = issuer_params.self_signed(&other_cert_key).map_err(e)?;
        params.signed_by(&cert_key, &issuer, &other_cert_key).map_err(e)?
    } else {
        params.self_signed(&cert_key).map_err(e)?
    };
    let mut d: Vec<u8> = cert.der().as_ref().to_vec();
    if variant.starts_with("alg-oid-sha224") {
        // ecdsa-with-SHA256 1.2.840.10045.4.3.2 -> ecdsa-with-SHA224 1.2.840.10045.4.3.1 (same length)
        let oid = [0x06u8, 0x08, 0x2a, 0x86, 0x48, 0xce, 0x3d, 0x04, 0x03, 0x02];
        let pos: Vec<usize> = (0..d.len().saturating_sub(oid.len())).filter(|&i| d[i..i + oid.len()] == oid).collect();
        if pos.len() != 2 {
            return Err(format!("harness: expected 2 signature algorithm OIDs, found {}", pos.len()));
        }
        let which: &[usize] = match variant {
            "alg-oid-sha224-both" => &[0, 1],
            "alg-oid-sha224-inner" => &[0],
            _ => &[1],
        };
        for &w in which {
            d[pos[w] + oid.len() - 1] = 0x01;
        }
    }
    Ok((d, exp))
}

fn struct_case(c: &Value) -> Result<String, String> {
    let kind = c["k"].as_u64().unwrap_or(0) as usize;
    let variant = c["variant"].as_str().unwrap_or("baseline");
    let (d, exp) = match c["der"].as_str() {
        Some(h) => (unhex(h), build_variant(kind, variant)?.1),
        None => build_variant(kind, variant)?,
    };
    let host_id = keys::key(kind, 0).public().to_peer_id();
    let other_id = keys::key((kind + 1) % 4, 1).public().to_peer_id();
    let v = verdict(&d)?;
    let tag = |m: String| format!("{m} [der={}]", hex(&d));
    match (v, exp) {
        (Some(p), Exp::Reject) => Err(tag(format!("tls-accepts-invalid-certificate {variant} :: {}: accepted as {p}", keys::KINDS[kind]))),
        (None, Exp::Accept) => Err(tag(format!("tls-rejects-valid-certificate :: {}: harness-built baseline certificate rejected", keys::KINDS[kind]))),
        (Some(p), _) => {
            let want = if variant == "foreign-complete-extension" { other_id } else { host_id };
            if p != want {
                return Err(tag(format!("tls-wrong-peer-id {variant} :: {}: accepted with peer id {p}, the extension's host key has id {want}", keys::KINDS[kind])));
            }
            Ok(format!("{}accepted", if exp == Exp::Open { "open-" } else { "" }))
        }
        (None, _) => Ok(format!("{}rejected", if exp == Exp::Open { "open-" } else { "" })),
    }
}

fn mut_case(c: &Value) -> Result<String, String> {
    let kind = c["k"].as_u64().unwrap_or(0) as usize;
    let edit = Edit::from_json(&c["edit"]);
    let base = match c["der"].as_str() {
        Some(h) => unhex(h),
        None => base_cert(kind)?,
    };
    let host_id = keys::key(kind, 0).public().to_peer_id();
    let d = edit.apply(&base);
    match verdict(&d)? {
        Some(p) if p != host_id => Err(format!("tls-mutation-changes-peer-id :: {}: {edit:?} on a generated certificate is accepted with peer id {p} instead of {host_id} [der={}]", keys::KINDS[kind], hex(&base))),
        Some(_) => Ok(if d == base { "baseline-accepted" } else { "mutated-accepted-same-id" }.into()),
        None if d == base => Err(format!("tls-rejects-generated-certificate :: {}: certificate::generate output is rejected by certificate::parse [der={}]", keys::KINDS[kind], hex(&base))),
        None => Ok("mutated-rejected".into()),
    }
}

fn run_case(c: &Value) -> Result<String, String> {
    match c["kind"].as_str() {
        Some("mut") => mut_case(c),
        Some("struct") => struct_case(c),
        _ => Err("bad replay case".into()),
    }
}

/// move the `[der=…]` tail of a violation message into the replay case
fn split_der(m: &str, case: &Value) -> (String, Value) {
    let mut case = case.clone();
    if let (Some(a), Some(b)) = (m.rfind("[der="), m.rfind(']')) {
        case["der"] = json!(m[a + 5..b]);
        return (m[..a].trim_end().to_string(), case);
    }
    (m.to_string(), case)
}

pub fn run(ctx: &Ctx) -> Outcome {
    if let Some(case) = &ctx.replay {
        let mut out = Outcome::default();
        out.evaluations = 1;
        if let Err(m) = run_case(case) {
            let (m, case) = split_der(&m, case);
            out.violation(mc::bfs::signature_of(&m), m, case);
        }
        return out;
    }
    if ctx.worker.is_none() {
        // one base certificate per host key type for the whole run, handed to the workers
        for kind in 0..4 {
            match base_cert(kind) {
                Ok(d) => std::env::set_var(format!("C18_BASE_{kind}"), hex(&d)),
                Err(m) => {
                    let mut out = Outcome::default();
                    if m.starts_with("harness:") {
                        out.machinery(m);
                    } else {
                        out.violation(mc::bfs::signature_of(&m), m, json!({"kind":"mut","k":kind,"edit":Edit::None.to_json()}));
                    }
                    return out;
                }
            }
        }
    }
    let mut out = mc::workers(ctx, 16, |ctx| {
        let mut out = Outcome::default();
        let mut n = 0u64;
        let mut case = |out: &mut Outcome, trivial: bool, c: Value| {
            n += 1;
            if !ctx.mine(n) {
                return;
            }
            out.evaluations += 1;
            if !trivial {
                out.nontrivial(&c.to_string());
            }
            match run_case(&c) {
                Ok(class) => {
                    // whether a mutated certificate is still accepted (with the same id) depends on
                    // the random certificate bytes: one counter for both, the split goes to the notes
                    if class == "mutated-accepted-same-id" {
                        out.count("split_mutated_accepted_same_id", 1);
                    }
                    let class = if class.starts_with("mutated-") { "mutated-judged" } else { class.as_str() };
                    out.count(&format!("{}_{class}", c["kind"].as_str().unwrap_or("")), 1)
                }
                Err(m) if m.starts_with("harness:") => out.machinery(m),
                Err(m) => {
                    let (m, c2) = split_der(&m, &c);
                    out.violation(format!("{} {}", mc::bfs::signature_of(&m), keys::KINDS[c["k"].as_u64().unwrap_or(0) as usize]), m, c2)
                }
            }
            if n % 2999 == 11 {
                out.sample(c);
            }
        };
        for kind in 0..4usize {
            for v in VARIANTS {
                case(&mut out, v == "baseline", json!({"kind":"struct","k":kind,"variant":v}));
            }
            case(&mut out, true, json!({"kind":"mut","k":kind,"edit":Edit::None.to_json()}));
            let masks = if ctx.quick() {
                let mut m = masks_bits();
                m.push(0xff);
                m
            } else {
                masks_all()
            };
            for e in all_edits(TARGET_LEN[kind], &masks) {
                case(&mut out, false, json!({"kind":"mut","k":kind,"edit":e.to_json()}));
            }
        }
        out
    });
    out.sample(json!({"kind":"struct","k":0,"variant":"sig-by-other-host","note":"extension announces host key A but carries a (valid) signature by host key B over the certificate key"}));
    let acc = out.counters.remove("split_mutated_accepted_same_id").unwrap_or(0);
    let judged = out.get("mut_mutated-judged");
    out.notes.push(format!("of the mutated certificates, {acc} were still accepted (all with the unchanged peer id: lenient tag-class bits, BIT STRING unused-bits byte, trailing bytes) and {} rejected in this run; the split depends on the random certificate bytes (ring entropy bypasses the shim) and is therefore reported here and not as a counter", judged.saturating_sub(acc)));
    if out.violations.is_empty() {
        if acc == 0 || acc * 2 > judged {
            out.machinery(format!("vacuity: {acc} of {judged} mutated certificates accepted"));
        }
        for (k, min) in [("struct_accepted", 4u64), ("struct_rejected", 60), ("mut_baseline-accepted", 4), ("mut_mutated-judged", 1000)] {
            if out.get(k) < min {
                out.machinery(format!("vacuity: counter {k} = {} (< {min})", out.get(k)));
            }
        }
    }
    out
}
