//! C19 — plaintext and pnet upgrades preserve data and reject mismatches.
//!  (a) plaintext handshake against a hand-encoded `Exchange` (E3 fault enumeration),
//!  (b) two real `PnetConfig::handshake` ends over an adversarial pipe (E1 exploration of
//!      chunkings / partial writes / Pending / Interrupted / schedule),
//!  (c) pre-shared key files: round trip and panic-freedom of `PreSharedKey::from_str` (E3).
//!
//! Readings settled on:
//!  * "announced id matches announced key" is judged byte-wise: the id bytes must be the
//!    reference peer-id encoding of the announced key (identity multihash of the protobuf
//!    encoding if <= 42 bytes, else SHA2-256 multihash). An announced *hashed* id for an
//!    inlinable key is a different PeerId and is left open (not enumerated as a demand).
//!  * An `Exchange` larger than the codec's 100-byte limit (RSA / ECDSA keys) may be refused even
//!    if it matches; only "Ok implies match" is demanded there.
//!  * `u8::from_str_radix` accepts a leading '+', so some non-hex key lines parse; the statement
//!    only demands round trip and panic-freedom, so that is not judged.

use crate::edit::{all_edits, masks_all, masks_bits, Edit};
use crate::keys::{self, hex};
use futures::{AsyncRead, AsyncReadExt, AsyncWrite, AsyncWriteExt};
use kit::pb::W;
use kit::pipe::{self, PipeCfg};
use kit::tasks::{poll_once, RunEnd, Tasks};
use libp2p_core::upgrade::{InboundConnectionUpgrade, OutboundConnectionUpgrade};
use libp2p_identity::PublicKey;
use libp2p_pnet::{PnetConfig, PreSharedKey};
use mc::choice::{self, Chooser};
use mc::{json, Ctx, Meta, Outcome, Value};
use std::cell::RefCell;
use std::io;
use std::pin::Pin;
use std::rc::Rc;
use std::str::FromStr;
use std::sync::atomic::{AtomicBool, Ordering::SeqCst};
use std::sync::Arc;
use std::task::{Context, Poll};

pub const META: Meta = Meta {
    level: "model_checking",
    rule: "(b, E1) pnet: every sequence of <=2 (quick) / <=3 (thorough) writes with sizes from {1,1023,1024,1025,3000} x {flush after each write, flush at the end} A->B followed by a fixed B->A sequence, two real PnetConfig::handshake ends joined by a pipe; per configuration every execution with <= bound deviations (1-byte or 1000-byte partial writes, 1-byte short reads, injected Pending on read/write/flush, injected Interrupted on post-handshake writes, non-round-robin task choice), bound 2 quick / 3 thorough. (a, E3) plaintext: inbound and outbound upgrade against a hand-encoded Exchange: 8 id variants x 5 key variants x 2 announced key types x follow-up lengths {0,1,5} x transport read sizes {all,1,3,64} x application read sizes {1,64}; every single-byte substitution / truncation / extension of the announced id and of the announced key, and of the whole framed message. (c, E3) key files: round trip of 520 structured keys; every single-character substitution (10 replacement characters, both character-wise and byte-length-preserving) of a valid key file; every file of <=3 (quick) / <=4 (thorough) lines over 16 line pieces x 2 line terminators x final newline or not. Non-trivial = pnet executions with >=1 deviation, plaintext cases other than the honest exchange, key-file inputs other than printed keys.",
    explanation: "pnet part: E1 stateless deviation-bounded DFS over the real handshake and CryptWriter futures; oracle: each side reads exactly the bytes the other wrote, both terminate. Plaintext part (fault enumeration): mismatch => Err, match => Ok with the announced key's peer id and the follow-up bytes delivered first and in order. Key files (enumeration): from_str(to_key_file(k)) == k, and from_str never panics.",
    assumptions: &["poll-granularity interleaving on one thread", "pnet nonces come from the deterministic entropy stream; only plaintext bytes are observed", "Interrupted is injected only after the pnet handshake (write_all on the raw socket does not retry it; the statement speaks about the established channel)"],
};

// =============================================================================================
// (a) plaintext

const LATER: &[u8] = b"LATER";
const FOLLOW: &[u8] = &[0xF1, 0xF2, 0xF3, 0xF4, 0xF5];

fn ref_peer_id_bytes(enc: &[u8]) -> Vec<u8> {
    if enc.len() <= 42 {
        let mut v = vec![0x00, enc.len() as u8];
        v.extend_from_slice(enc);
        v
    } else {
        let mut v = vec![0x12, 0x20];
        v.extend_from_slice(&keys::sha256(enc));
        v
    }
}

fn variant_bytes(v: &Value, honest: &[u8], is_id: bool) -> Option<Vec<u8>> {
    match v["v"].as_str().unwrap_or("honest") {
        "honest" => Some(honest.to_vec()),
        "peer" | "key" => {
            let kp = keys::key(v["k"].as_u64().unwrap_or(0) as usize, v["i"].as_u64().unwrap_or(0) as u8);
            Some(if is_id { kp.public().to_peer_id().to_bytes() } else { kp.public().encode_protobuf() })
        }
        "absent" => None,
        "empty" => Some(vec![]),
        "garbage" => Some(vec![0xde, 0xad, 0xbe, 0xef, 0x00, 0x12, 0x20]),
        "edit" => Some(Edit::from_json(&v["edit"]).apply(honest)),
        _ => Some(honest.to_vec()),
    }
}

fn pt_case(c: &Value) -> Result<&'static str, String> {
    let u = |k: &str, d: u64| c[k].as_u64().unwrap_or(d);
    let local = keys::ed(0);
    let remote = keys::key(u("rk", 0) as usize, u("ri", 1) as u8);
    let honest_pk = remote.public().encode_protobuf();
    let honest_id = remote.public().to_peer_id().to_bytes();
    let follow = &FOLLOW[..(u("follow", 0) as usize).min(5)];
    let rbuf = (u("rbuf", 64) as usize).max(1);
    let raw = !c["raw"].is_null();
    // what is announced
    let (id_b, pk_b, wire) = if raw {
        let frame = W::new().bytes(1, &honest_id).bytes(2, &honest_pk).framed();
        (None, None, Edit::from_json(&c["raw"]).apply(&frame))
    } else {
        let id_b = variant_bytes(&c["id"], &honest_id, true);
        let pk_b = variant_bytes(&c["pk"], &honest_pk, false);
        let body = W::new().opt_bytes(1, id_b.as_deref()).opt_bytes(2, pk_b.as_deref());
        (id_b, pk_b, body.framed())
    };
    let body_len = wire.len().saturating_sub(1);
    // expectation (semantic cases only)
    #[derive(PartialEq, Debug)]
    enum Exp {
        Ok(Vec<u8>),
        Err,
        Open,
    }
    let exp = if raw {
        Exp::Open
    } else {
        match PublicKey::try_decode_protobuf(&pk_b.clone().unwrap_or_default()) {
            Err(_) => Exp::Err,
            Ok(pk) => {
                let want = ref_peer_id_bytes(&pk.encode_protobuf());
                if id_b.clone().unwrap_or_default() != want {
                    Exp::Err
                } else if body_len > 100 {
                    Exp::Open
                } else {
                    Exp::Ok(want)
                }
            }
        }
    };
    // run the real upgrade
    let cfg = PipeCfg { max_read: u("maxread", 0) as usize, ..Default::default() };
    let (real_end, harness_end) = pipe::pair(cfg);
    let h = harness_end.handle();
    let mut all = wire.clone();
    all.extend_from_slice(follow);
    h.inject(false, &all); // B -> A, in one piece, before the real side starts
    let pcfg = libp2p_plaintext::Config::new(&local);
    let mut fut = if c["dir"].as_str() == Some("out") { pcfg.upgrade_outbound(real_end, "/plaintext/2.0.0") } else { pcfg.upgrade_inbound(real_end, "/plaintext/2.0.0") };
    let mut res = None;
    let mut closed = false;
    for _ in 0..64 {
        match mc::catch(|| poll_once(&mut fut)).map_err(|p| format!("plaintext-handshake-panic :: {p} at {:?}", mc::shim::last_panic_loc()))? {
            Poll::Ready(r) => {
                res = Some(r);
                break;
            }
            Poll::Pending => {
                // wants more than was sent: end of stream
                h.close(false);
                closed = true;
            }
        }
    }
    let Some(res) = res else { return Err("plaintext-handshake-stuck :: still pending after EOF".into()) };
    let sent = h.take(true);
    if sent.is_empty() {
        return Err("plaintext-sends-nothing :: the local Exchange was not written".into());
    }
    match res {
        Err(e) => match exp {
            Exp::Ok(_) => Err(format!("plaintext-rejects-matching-exchange :: {c}: {e}")),
            _ => Ok(if closed { "rejected-eof" } else { "rejected" }),
        },
        Ok((peer, mut out)) => {
            if peer != out.remote_key.to_peer_id() {
                return Err(format!("plaintext-peer-not-key :: reported peer {peer} is not the id of the reported remote key"));
            }
            match &exp {
                Exp::Err => return Err(format!("plaintext-accepts-mismatch :: announced id {} with key {} accepted as {peer}", id_b.as_deref().map(hex).unwrap_or("<absent>".into()), pk_b.as_deref().map(hex).unwrap_or("<absent>".into()))),
                Exp::Ok(want) if peer.to_bytes() != *want => return Err(format!("plaintext-wrong-peer :: reported {peer}, announced key has id {}", hex(want))),
                _ => {}
            }
            if raw {
                // nothing is known about what a mutated frame announces; delivery is not judged
                return Ok("raw-accepted");
            }
            // follow-up bytes first, later bytes after, nothing else
            if !closed {
                h.inject(false, LATER);
                h.close(false);
            }
            let mut got = Vec::new();
            let mut buf = vec![0u8; rbuf];
            for _ in 0..256 {
                let mut rd = out.read(&mut buf);
                match mc::catch(|| poll_once(&mut rd)).map_err(|p| format!("plaintext-read-panic :: {p}"))? {
                    Poll::Ready(Ok(0)) => break,
                    Poll::Ready(Ok(n)) => got.extend_from_slice(&buf[..n]),
                    Poll::Ready(Err(e)) => return Err(format!("plaintext-read-error :: {e}")),
                    Poll::Pending => return Err("plaintext-read-stuck :: read pending although the stream is closed".into()),
                }
            }
            let mut want = follow.to_vec();
            if !closed {
                want.extend_from_slice(LATER);
            }
            if got != want {
                return Err(format!("plaintext-followup-lost :: sent {} right after the exchange then {:?}; application read {}", hex(follow), if closed { "" } else { "LATER" }, hex(&got)));
            }
            Ok("accepted")
        }
    }
}

// =============================================================================================
// (b) pnet

/// injects `Interrupted` on writes once armed (CryptWriter documents that it retries it)
struct Flaky<S> {
    inner: S,
    armed: Arc<AtomicBool>,
}
impl<S: AsyncRead + Unpin> AsyncRead for Flaky<S> {
    fn poll_read(mut self: Pin<&mut Self>, cx: &mut Context<'_>, buf: &mut [u8]) -> Poll<io::Result<usize>> {
        Pin::new(&mut self.inner).poll_read(cx, buf)
    }
}
impl<S: AsyncWrite + Unpin> AsyncWrite for Flaky<S> {
    fn poll_write(mut self: Pin<&mut Self>, cx: &mut Context<'_>, buf: &[u8]) -> Poll<io::Result<usize>> {
        if self.armed.load(SeqCst) && !buf.is_empty() && choice::choose_l(2, 1, "interrupted") == 1 {
            return Poll::Ready(Err(io::ErrorKind::Interrupted.into()));
        }
        Pin::new(&mut self.inner).poll_write(cx, buf)
    }
    fn poll_flush(mut self: Pin<&mut Self>, cx: &mut Context<'_>) -> Poll<io::Result<()>> {
        Pin::new(&mut self.inner).poll_flush(cx)
    }
    fn poll_close(mut self: Pin<&mut Self>, cx: &mut Context<'_>) -> Poll<io::Result<()>> {
        Pin::new(&mut self.inner).poll_close(cx)
    }
}

fn psk(i: u8) -> PreSharedKey {
    let mut k = [0x5au8; 32];
    k[0] = i;
    PreSharedKey::new(k)
}
fn pattern(n: usize, tag: u8) -> Vec<u8> {
    (0..n).map(|i| (i as u8).wrapping_mul(7).wrapping_add(tag)).collect()
}

#[derive(Default, Clone, Debug)]
struct PSide {
    err: Option<String>,
    got: Vec<u8>,
    done: bool,
}

const B_SIZES: [usize; 2] = [7, 1025];

fn pnet_one(sizes: &[usize], flush_each: bool, same_key: bool, pcfg: PipeCfg, sched: bool, interrupts: bool) -> Result<(Vec<u8>, Vec<u8>), String> {
    let (a, b) = pipe::pair(pcfg);
    let armed = Arc::new(AtomicBool::new(false));
    let a = Flaky { inner: a, armed: armed.clone() };
    let b = Flaky { inner: b, armed: armed.clone() };
    let sa = Rc::new(RefCell::new(PSide::default()));
    let sb = Rc::new(RefCell::new(PSide::default()));
    let a_data = pattern(sizes.iter().sum(), 0x11);
    let b_data = pattern(B_SIZES.iter().sum(), 0x77);
    let mut tasks = Tasks::new(sched);
    {
        let (sa, a_data, sizes, armed) = (sa.clone(), a_data.clone(), sizes.to_vec(), armed.clone());
        tasks.spawn_local("A", async move {
            let r: Result<Vec<u8>, String> = async {
                let mut s = PnetConfig::new(psk(1)).handshake(a).await.map_err(|e| format!("handshake: {e}"))?;
                if interrupts {
                    armed.store(true, SeqCst);
                }
                let mut off = 0;
                for sz in sizes {
                    s.write_all(&a_data[off..off + sz]).await.map_err(|e| format!("write: {e}"))?;
                    off += sz;
                    if flush_each {
                        s.flush().await.map_err(|e| format!("flush: {e}"))?;
                    }
                }
                s.flush().await.map_err(|e| format!("flush: {e}"))?;
                s.close().await.map_err(|e| format!("close: {e}"))?;
                let mut got = Vec::new();
                s.read_to_end(&mut got).await.map_err(|e| format!("read: {e}"))?;
                Ok(got)
            }
            .await;
            let mut g = sa.borrow_mut();
            match r {
                Ok(v) => g.got = v,
                Err(e) => g.err = Some(e),
            }
            g.done = true;
        });
    }
    {
        let (sb, b_data, armed) = (sb.clone(), b_data.clone(), armed.clone());
        tasks.spawn_local("B", async move {
            let r: Result<Vec<u8>, String> = async {
                let mut s = PnetConfig::new(psk(if same_key { 1 } else { 2 })).handshake(b).await.map_err(|e| format!("handshake: {e}"))?;
                if interrupts {
                    armed.store(true, SeqCst);
                }
                let mut got = Vec::new();
                s.read_to_end(&mut got).await.map_err(|e| format!("read: {e}"))?;
                let mut off = 0;
                for sz in B_SIZES {
                    s.write_all(&b_data[off..off + sz]).await.map_err(|e| format!("write: {e}"))?;
                    off += sz;
                }
                s.flush().await.map_err(|e| format!("flush: {e}"))?;
                s.close().await.map_err(|e| format!("close: {e}"))?;
                Ok(got)
            }
            .await;
            let mut g = sb.borrow_mut();
            match r {
                Ok(v) => g.got = v,
                Err(e) => g.err = Some(e),
            }
            g.done = true;
        });
    }
    let end = tasks.run(200_000);
    let (ra, rb) = (sa.borrow().clone(), sb.borrow().clone());
    if same_key {
        choice::observe(&format!("{:?}{:?}{}{}", ra.err, rb.err, ra.got.len(), rb.got.len()));
    }
    if end == RunEnd::Horizon {
        return Err("pnet-horizon :: still runnable after 200000 polls (livelock?)".into());
    }
    if !ra.done || !rb.done {
        return Err(format!("pnet-stuck :: quiescent but unfinished: A done={} B done={}", ra.done, rb.done));
    }
    if let Some(e) = ra.err.or(rb.err) {
        return Err(format!("pnet-io-error :: {e}"));
    }
    if same_key && (rb.got != a_data || ra.got != b_data) {
        let first = rb.got.iter().zip(a_data.iter()).position(|(x, y)| x != y);
        return Err(format!("pnet-bytes-differ :: A wrote {} bytes, B read {} (first difference at {:?}); B wrote {}, A read {} equal={}", a_data.len(), rb.got.len(), first, b_data.len(), ra.got.len(), ra.got == b_data));
    }
    Ok((rb.got, a_data))
}

const SIZES: [usize; 5] = [1, 1023, 1024, 1025, 3000];

fn pnet_body(cfg: &Value) -> impl FnMut(&mut Chooser) -> Result<(), String> {
    let sizes: Vec<usize> = serde_json::from_value(cfg["sizes"].clone()).unwrap_or_default();
    let flush_each = cfg["flush_each"].as_bool().unwrap_or(false);
    move |ch: &mut Chooser| {
        let sizes = sizes.clone();
        let pcfg = PipeCfg { alt_chunk: 1000, ..PipeCfg::adversarial() };
        choice::scoped(ch, move || mc::catch(|| pnet_one(&sizes, flush_each, true, pcfg, true, true).map(|_| ())).unwrap_or_else(|p| Err(format!("pnet-panic :: {p} at {:?}", mc::shim::last_panic_loc()))))
    }
}

// =============================================================================================
// (c) key files

fn key_case(c: &Value) -> Result<&'static str, String> {
    if let Some(kh) = c["key"].as_str() {
        let mut k = [0u8; 32];
        k.copy_from_slice(&keys::unhex(kh)[..32]);
        let key = PreSharedKey::new(k);
        let file = mc::catch(|| key.to_key_file()).map_err(|p| format!("psk-print-panic :: {p}"))?;
        let want = format!("/key/swarm/psk/1.0.0/\n/base16/\n{}\n", hex(&k));
        if file != want || key.to_string() != want {
            return Err(format!("psk-file-format :: printed {file:?}, reference {want:?}"));
        }
        return match mc::catch(|| PreSharedKey::from_str(&file)).map_err(|p| format!("psk-parse-panic {} :: printed key file panics: {p}", mc::shim::last_panic_loc().unwrap_or_default()))? {
            Ok(k2) if k2 == key => Ok("roundtrip"),
            Ok(_) => Err(format!("psk-roundtrip-differs :: key {kh} parses back to a different key")),
            Err(e) => Err(format!("psk-roundtrip-rejected :: key {kh}: {e}")),
        };
    }
    let text = c["text"].as_str().unwrap_or("");
    match mc::catch(|| PreSharedKey::from_str(text)) {
        Err(p) => Err(format!("psk-parse-panic {} :: from_str panics on {text:?}: {p}", mc::shim::last_panic_loc().unwrap_or_default())),
        Ok(Err(_)) => Ok("rejected"),
        Ok(Ok(k)) => {
            // whatever was accepted must print to a file that parses to the same key
            match mc::catch(|| PreSharedKey::from_str(&k.to_key_file())) {
                Ok(Ok(k2)) if k2 == k => Ok("accepted"),
                _ => Err(format!("psk-accepted-not-roundtrip :: {text:?}")),
            }
        }
    }
}

// =============================================================================================

fn run_e3(c: &Value) -> Result<&'static str, String> {
    match c["kind"].as_str() {
        Some("pt") => pt_case(c),
        Some("psk") => key_case(c),
        _ => Err("bad replay case".into()),
    }
}

struct En<'a> {
    ctx: &'a Ctx,
    out: Outcome,
    n: u64,
}
impl En<'_> {
    fn case(&mut self, section: &str, trivial: bool, case: Value) {
        self.n += 1;
        if !self.ctx.mine(self.n) {
            return;
        }
        self.out.evaluations += 1;
        if !trivial {
            self.out.nontrivial(&case.to_string());
        }
        match run_e3(&case) {
            Ok(class) => self.out.count(&format!("{section}_{class}"), 1),
            Err(m) => self.out.violation(mc::bfs::signature_of(&m), m, case.clone()),
        }
        if self.n % 4999 == 3 {
            self.out.sample(case);
        }
    }
}

fn pnet_cfgs(ctx: &Ctx) -> Vec<Value> {
    let mut cfgs = Vec::new();
    for len in 1..=ctx.tier.pick(2, 3) {
        mc::enumerate::sequences(SIZES.len(), len, |idx| {
            for fe in [false, true] {
                cfgs.push(json!({"sizes": idx.iter().map(|&i| SIZES[i]).collect::<Vec<_>>(), "flush_each": fe}));
            }
        });
    }
    cfgs
}

pub fn run(ctx: &Ctx) -> Outcome {
    if let Some(case) = &ctx.replay {
        let mut out = Outcome::default();
        out.evaluations = 1;
        if case["kind"].as_str() == Some("pnet") {
            let choices: Vec<u32> = serde_json::from_value(case["choices"].clone()).unwrap_or_default();
            if let Err(m) = choice::replay(&choices, pnet_body(&case["cfg"])) {
                out.violation(mc::bfs::signature_of(&m), m, case.clone());
            }
        } else if let Err(m) = run_e3(case) {
            out.violation(mc::bfs::signature_of(&m), m, case.clone());
        }
        return out;
    }
    let bound = ctx.tier.pick(2, 3);
    let cfgs = pnet_cfgs(ctx);
    let mut out = mc::workers(ctx, 16, |ctx| {
        let mut en = En { ctx, out: Outcome::default(), n: 0 };
        // ---------------- (b) pnet, E1
        for (i, cfg) in cfgs.iter().enumerate() {
            if !ctx.mine(i as u64) {
                continue;
            }
            let (st, viol) = choice::explore(bound, 0, pnet_body(cfg));
            en.out.add_explore(&st);
            en.out.count("pnet_configs", 1);
            en.out.count("pnet_distinct_observations", st.distinct_obs);
            for k in 1..st.executions.min(50_000) {
                en.out.nontrivial_h(mc::report::hash_str(&cfg.to_string()) ^ k.wrapping_mul(0x9e3779b97f4a7c15));
            }
            if i % 23 == 0 {
                en.out.sample(json!({"kind":"pnet","cfg":cfg,"executions":st.executions}));
            }
            if let Some((choices, m)) = viol {
                if m.starts_with("NONDETERMINISM") {
                    en.out.machinery(format!("{m} cfg={cfg}"));
                } else {
                    en.out.violation(mc::bfs::signature_of(&m), m, json!({"kind":"pnet","cfg":cfg,"choices":choices}));
                }
            }
        }
        // ---------------- (a) plaintext, E3
        let idv = [json!({"v":"honest"}), json!({"v":"peer","k":0,"i":2}), json!({"v":"peer","k":1,"i":1}), json!({"v":"peer","k":0,"i":0}), json!({"v":"absent"}), json!({"v":"empty"}), json!({"v":"garbage"}), json!({"v":"peer","k":3,"i":0})];
        let pkv = [json!({"v":"honest"}), json!({"v":"key","k":0,"i":2}), json!({"v":"absent"}), json!({"v":"empty"}), json!({"v":"garbage"})];
        for dir in ["in", "out"] {
            for (rk, ri) in [(0u64, 1u64), (1, 0)] {
                for (ii, id) in idv.iter().enumerate() {
                    for (pi, pk) in pkv.iter().enumerate() {
                        for follow in [0u64, 1, 5] {
                            for maxread in [0u64, 1, 3, 64] {
                                for rbuf in [1u64, 64] {
                                    en.case("pt", ii == 0 && pi == 0, json!({"kind":"pt","dir":dir,"rk":rk,"ri":ri,"id":id,"pk":pk,"follow":follow,"maxread":maxread,"rbuf":rbuf}));
                                }
                            }
                        }
                    }
                }
            }
        }
        // keys too large for the 100-byte codec limit: honest ecdsa / rsa exchanges (left open) and their mismatches
        for rk in [2u64, 3] {
            for id in [json!({"v":"honest"}), json!({"v":"peer","k":0,"i":2})] {
                en.case("ptbig", false, json!({"kind":"pt","dir":"in","rk":rk,"ri":0,"id":id,"pk":{"v":"honest"},"follow":2,"maxread":0,"rbuf":64}));
            }
        }
        for (rk, ri) in [(0u64, 1u64), (1, 0)] {
            let remote = keys::key(rk as usize, ri as u8);
            let idlen = remote.public().to_peer_id().to_bytes().len();
            let pklen = remote.public().encode_protobuf().len();
            for e in all_edits(idlen, &masks_all()) {
                en.case("ptid", false, json!({"kind":"pt","dir":"in","rk":rk,"ri":ri,"id":{"v":"edit","edit":e.to_json()},"pk":{"v":"honest"},"follow":2,"maxread":0,"rbuf":64}));
            }
            for e in all_edits(pklen, &masks_all()) {
                en.case("ptpk", false, json!({"kind":"pt","dir":"out","rk":rk,"ri":ri,"id":{"v":"honest"},"pk":{"v":"edit","edit":e.to_json()},"follow":2,"maxread":0,"rbuf":64}));
            }
            let framelen = 1 + 2 + idlen + 2 + pklen;
            let masks = if ctx.quick() { masks_bits() } else { masks_all() };
            for e in all_edits(framelen, &masks) {
                en.case("ptraw", false, json!({"kind":"pt","dir":"in","rk":rk,"ri":ri,"raw":e.to_json(),"follow":3,"maxread":0,"rbuf":64}));
            }
        }
        // ---------------- (c) key files, E3
        for pat in 0..8u8 {
            let k: Vec<u8> = (0..32u8).map(|i| match pat {
                0 => 0x00,
                1 => 0xff,
                2 => i,
                3 => 0xf0 ^ i,
                4 => 0x0a,
                5 => 0xa0,
                6 => i.wrapping_mul(17),
                _ => 0x7f,
            }).collect();
            en.case("psk", true, json!({"kind":"psk","key":hex(&k)}));
        }
        for pos in [0usize, 31] {
            for v in 0..=255u8 {
                let mut k = [0x3cu8; 32];
                k[pos] = v;
                en.case("psk", true, json!({"kind":"psk","key":hex(&k)}));
            }
        }
        let valid = psk(9).to_key_file();
        let repl = ['é', '€', '𝄞', '+', '-', ' ', '\r', '\n', 'g', 'A'];
        let chars: Vec<char> = valid.chars().collect();
        for p in 0..chars.len() {
            for &r in &repl {
                // character-wise substitution
                let mut t = chars.clone();
                t[p] = r;
                en.case("pskmut", false, json!({"kind":"psk","text":t.iter().collect::<String>()}));
                // byte-length-preserving substitution (the file is ASCII, so byte == char index)
                let w = r.len_utf8();
                if w > 1 && p + w <= chars.len() && !chars[p..p + w].contains(&'\n') {
                    let mut t: Vec<char> = chars[..p].to_vec();
                    t.push(r);
                    t.extend_from_slice(&chars[p + w..]);
                    en.case("pskmut", false, json!({"kind":"psk","text":t.iter().collect::<String>()}));
                }
            }
        }
        let h64 = hex(&[0xabu8; 32]);
        let pieces: Vec<String> = vec![
            "".into(),
            "/key/swarm/psk/1.0.0/".into(),
            "/base16/".into(),
            "/base64/".into(),
            h64.clone(),
            h64[..63].into(),
            format!("{h64}0"),
            format!("{}g", &h64[..63]),
            format!("a\u{e9}{}", &h64[..61]),
            format!("\u{e9}{}", &h64[..62]),
            format!("{}\u{20ac}", &h64[..61]),
            format!("{}\u{1d11e}", &h64[..60]),
            format!("{h64}   "),
            format!("{}  ", &h64[..62]),
            "\u{e9}".into(),
            format!("+{}", &h64[..63]),
        ];
        let maxlines = ctx.tier.pick(3, 4);
        for term in ["\n", "\r\n"] {
            for fin in [false, true] {
                mc::enumerate::sequences_upto(pieces.len(), maxlines, |idx| {
                    let mut s = idx.iter().map(|&i| pieces[i].as_str()).collect::<Vec<_>>().join(term);
                    if fin {
                        s.push_str(term);
                    }
                    en.case("pskfile", false, json!({"kind":"psk","text":s}));
                });
            }
        }
        en.out
    });
    // the cipher must actually be in the path: different keys must garble the bytes (default schedule)
    match pnet_one(&[64, 1024], false, false, PipeCfg::default(), false, false) {
        Ok((got, sent)) if got != sent && got.len() == sent.len() => out.count("pnet_different_keys_garbled", 1),
        other => out.machinery(format!("vacuity: two different pre-shared keys did not garble the data: {:?}", other.map(|(g, s)| (g.len(), s.len())))),
    }
    out.sample(json!({"kind":"psk","text":valid_sample()}));
    if out.violations.iter().all(|v| v.signature.starts_with("psk-parse-panic")) {
        for (k, min) in [("pt_accepted", 1u64), ("pt_rejected", 1), ("ptid_rejected", 1), ("ptpk_rejected", 1), ("ptraw_rejected", 1), ("ptraw_raw-accepted", 0), ("psk_roundtrip", 520), ("pskmut_rejected", 1), ("pskfile_accepted", 1), ("pskfile_rejected", 1), ("pnet_configs", 1), ("executions", 100)] {
            if out.get(k) < min {
                out.machinery(format!("vacuity: counter {k} = {} (< {min})", out.get(k)));
            }
        }
    }
    out
}

fn valid_sample() -> String {
    psk(9).to_key_file()
}
