//! A single fault applied to a recorded byte artefact (E3 fault enumeration), with a JSON form
//! so that every violation can be replayed from its case description.

use mc::{json, Value};

#[derive(Clone, Debug, PartialEq)]
pub enum Edit {
    None,
    /// xor `mask` into byte `pos`
    Xor(usize, u8),
    /// keep the first `len` bytes
    Trunc(usize),
    /// append one byte
    Append(u8),
    /// two xors
    Xor2(usize, u8, usize, u8),
}

impl Edit {
    pub fn apply(&self, b: &[u8]) -> Vec<u8> {
        let mut v = b.to_vec();
        match *self {
            Edit::None => {}
            Edit::Xor(p, m) => {
                if p < v.len() {
                    v[p] ^= m
                }
            }
            Edit::Trunc(l) => v.truncate(l),
            Edit::Append(x) => v.push(x),
            Edit::Xor2(p, m, q, n) => {
                if p < v.len() {
                    v[p] ^= m
                }
                if q < v.len() {
                    v[q] ^= n
                }
            }
        }
        v
    }
    pub fn to_json(&self) -> Value {
        match *self {
            Edit::None => json!({"op":"none"}),
            Edit::Xor(p, m) => json!({"op":"xor","pos":p,"mask":m}),
            Edit::Trunc(l) => json!({"op":"trunc","len":l}),
            Edit::Append(x) => json!({"op":"append","byte":x}),
            Edit::Xor2(p, m, q, n) => json!({"op":"xor2","pos":p,"mask":m,"pos2":q,"mask2":n}),
        }
    }
    pub fn from_json(v: &Value) -> Edit {
        let u = |k: &str| v[k].as_u64().unwrap_or(0);
        match v["op"].as_str() {
            Some("xor") => Edit::Xor(u("pos") as usize, u("mask") as u8),
            Some("trunc") => Edit::Trunc(u("len") as usize),
            Some("append") => Edit::Append(u("byte") as u8),
            Some("xor2") => Edit::Xor2(u("pos") as usize, u("mask") as u8, u("pos2") as usize, u("mask2") as u8),
            _ => Edit::None,
        }
    }
    pub fn is_none(&self) -> bool {
        *self == Edit::None
    }
}

/// all single-byte xors with the given masks, all truncations, and three 1-byte extensions
pub fn all_edits(len: usize, masks: &[u8]) -> Vec<Edit> {
    let mut v = Vec::new();
    for p in 0..len {
        for &m in masks {
            v.push(Edit::Xor(p, m));
        }
    }
    for l in 0..len {
        v.push(Edit::Trunc(l));
    }
    for x in [0x00u8, 0x01, 0xff] {
        v.push(Edit::Append(x));
    }
    v
}

pub fn masks_all() -> Vec<u8> {
    (1..=255u8).collect()
}
pub fn masks_bits() -> Vec<u8> {
    mc::enumerate::BIT_MASKS.to_vec()
}
