//! Shared pieces for the noise checks (C16, C17): a man-in-the-middle link made of two pipes, a
//! hostile endpoint built directly on `snow` (same parameters and prologue as libp2p-noise), and
//! frame helpers (noise frames are 2-byte big-endian length prefixed).

use futures::{AsyncRead, AsyncWrite};
use kit::pipe::{self, End, Handle, PipeCfg};
use mc::choice;
use std::io;
use std::pin::Pin;
use std::sync::atomic::{AtomicBool, Ordering::SeqCst};
use std::sync::Arc;
use std::task::{Context, Poll};

pub const MAX_FRAME_LEN: usize = 65535 - 1024;
pub const STATIC_KEY_DOMAIN: &[u8] = b"noise-libp2p-static-key:";
pub const PARAMS: &str = "Noise_XX_25519_ChaChaPoly_SHA256";

// ---------------------------------------------------------------------------------------------
// frames

pub fn frame(body: &[u8]) -> Vec<u8> {
    let mut v = (body.len() as u16).to_be_bytes().to_vec();
    v.extend_from_slice(body);
    v
}

/// split off all complete frames (prefix included) from the front of `buf`
pub fn take_frames(buf: &mut Vec<u8>) -> Vec<Vec<u8>> {
    let mut out = Vec::new();
    loop {
        if buf.len() < 2 {
            return out;
        }
        let l = u16::from_be_bytes([buf[0], buf[1]]) as usize;
        if buf.len() < 2 + l {
            return out;
        }
        out.push(buf.drain(..2 + l).collect());
    }
}

// ---------------------------------------------------------------------------------------------
// MITM link: A <-> (pipe) harness (pipe) <-> B

pub struct Link {
    ha: Handle,
    hb: Handle,
    _keep: (End, End),
}

impl Link {
    /// returns (link, end for A, end for B)
    pub fn new() -> (Link, End, End) {
        let (a, ha_end) = pipe::pair(PipeCfg::default());
        let (hb_end, b) = pipe::pair(PipeCfg::default());
        (Link { ha: ha_end.handle(), hb: hb_end.handle(), _keep: (ha_end, hb_end) }, a, b)
    }
    /// bytes A has written since the last call
    pub fn from_a(&self) -> Vec<u8> {
        self.ha.take(true)
    }
    pub fn from_b(&self) -> Vec<u8> {
        self.hb.take(false)
    }
    pub fn to_a(&self, b: &[u8]) {
        if !b.is_empty() {
            self.ha.inject(false, b)
        }
    }
    pub fn to_b(&self, b: &[u8]) {
        if !b.is_empty() {
            self.hb.inject(true, b)
        }
    }
    /// end of stream towards A / B
    pub fn eof_to_a(&self) {
        self.ha.close(false)
    }
    pub fn eof_to_b(&self) {
        self.hb.close(true)
    }
}

// ---------------------------------------------------------------------------------------------
// explorer-controlled chunking that can be switched on after the handshake

pub struct Chunky<S> {
    pub inner: S,
    pub armed: Arc<AtomicBool>,
    /// alternative chunk sizes offered besides "everything" (each a deviation)
    pub alts: &'static [usize],
}

impl<S: AsyncRead + Unpin> AsyncRead for Chunky<S> {
    fn poll_read(mut self: Pin<&mut Self>, cx: &mut Context<'_>, buf: &mut [u8]) -> Poll<io::Result<usize>> {
        if !self.armed.load(SeqCst) || buf.is_empty() {
            return Pin::new(&mut self.inner).poll_read(cx, buf);
        }
        // options: all | each alt < buf.len() | Pending
        let opts: Vec<usize> = self.alts.iter().copied().filter(|a| *a < buf.len()).collect();
        let c = choice::choose_l(opts.len() + 2, 1, "chunky.read");
        if c == 0 {
            Pin::new(&mut self.inner).poll_read(cx, buf)
        } else if c <= opts.len() {
            let k = opts[c - 1];
            Pin::new(&mut self.inner).poll_read(cx, &mut buf[..k])
        } else {
            cx.waker().wake_by_ref();
            Poll::Pending
        }
    }
}

impl<S: AsyncWrite + Unpin> AsyncWrite for Chunky<S> {
    fn poll_write(mut self: Pin<&mut Self>, cx: &mut Context<'_>, buf: &[u8]) -> Poll<io::Result<usize>> {
        if !self.armed.load(SeqCst) || buf.is_empty() {
            return Pin::new(&mut self.inner).poll_write(cx, buf);
        }
        let opts: Vec<usize> = self.alts.iter().copied().filter(|a| *a < buf.len()).collect();
        let c = choice::choose_l(opts.len() + 2, 1, "chunky.write");
        if c == 0 {
            Pin::new(&mut self.inner).poll_write(cx, buf)
        } else if c <= opts.len() {
            let k = opts[c - 1];
            Pin::new(&mut self.inner).poll_write(cx, &buf[..k])
        } else {
            cx.waker().wake_by_ref();
            Poll::Pending
        }
    }
    fn poll_flush(mut self: Pin<&mut Self>, cx: &mut Context<'_>) -> Poll<io::Result<()>> {
        if self.armed.load(SeqCst) && choice::choose_l(2, 1, "chunky.flush") == 1 {
            cx.waker().wake_by_ref();
            return Poll::Pending;
        }
        Pin::new(&mut self.inner).poll_flush(cx)
    }
    fn poll_close(mut self: Pin<&mut Self>, cx: &mut Context<'_>) -> Poll<io::Result<()>> {
        Pin::new(&mut self.inner).poll_close(cx)
    }
}

// ---------------------------------------------------------------------------------------------
// hostile endpoint on snow

struct HDh {
    sk: [u8; 32],
    pk: [u8; 32],
}
impl snow::types::Dh for HDh {
    fn name(&self) -> &'static str {
        "25519"
    }
    fn pub_len(&self) -> usize {
        32
    }
    fn priv_len(&self) -> usize {
        32
    }
    fn set(&mut self, sk: &[u8]) {
        self.sk.copy_from_slice(&sk[..32]);
        self.pk = x25519_dalek::x25519(self.sk, x25519_dalek::X25519_BASEPOINT_BYTES);
    }
    fn generate(&mut self, rng: &mut dyn snow::types::Random) -> Result<(), snow::Error> {
        let mut sk = [0u8; 32];
        rng.try_fill_bytes(&mut sk)?;
        self.set(&sk);
        Ok(())
    }
    fn pubkey(&self) -> &[u8] {
        &self.pk
    }
    fn privkey(&self) -> &[u8] {
        &self.sk
    }
    fn dh(&self, pk: &[u8], out: &mut [u8]) -> Result<(), snow::Error> {
        let mut p = [0u8; 32];
        p.copy_from_slice(&pk[..32]);
        out[..32].copy_from_slice(&x25519_dalek::x25519(self.sk, p));
        Ok(())
    }
}

/// fixed "random" stream for the hostile side's ephemeral keys (a counter: the adversary need not be random)
struct HRng(u64);
impl snow::types::Random for HRng {
    fn try_fill_bytes(&mut self, dest: &mut [u8]) -> Result<(), snow::Error> {
        for b in dest.iter_mut() {
            self.0 = self.0.wrapping_mul(6364136223846793005).wrapping_add(1442695040888963407);
            *b = (self.0 >> 33) as u8;
        }
        Ok(())
    }
}

struct HResolver(u64);
impl snow::resolvers::CryptoResolver for HResolver {
    fn resolve_rng(&self) -> Option<Box<dyn snow::types::Random>> {
        Some(Box::new(HRng(self.0)))
    }
    fn resolve_dh(&self, choice: &snow::params::DHChoice) -> Option<Box<dyn snow::types::Dh>> {
        match choice {
            snow::params::DHChoice::Curve25519 => Some(Box::new(HDh { sk: [0; 32], pk: [0; 32] })),
            _ => None,
        }
    }
    fn resolve_hash(&self, choice: &snow::params::HashChoice) -> Option<Box<dyn snow::types::Hash>> {
        snow::resolvers::RingResolver.resolve_hash(choice)
    }
    fn resolve_cipher(&self, choice: &snow::params::CipherChoice) -> Option<Box<dyn snow::types::Cipher>> {
        snow::resolvers::RingResolver.resolve_cipher(choice)
    }
}

pub fn static_pub(sk: &[u8; 32]) -> [u8; 32] {
    x25519_dalek::x25519(*sk, x25519_dalek::X25519_BASEPOINT_BYTES)
}

pub fn snow_session(initiator: bool, prologue: &[u8], static_sk: &[u8; 32], rng_seed: u64) -> Result<snow::HandshakeState, snow::Error> {
    let params: snow::params::NoiseParams = PARAMS.parse().expect("params");
    let b = snow::Builder::with_resolver(params, Box::new(HResolver(rng_seed))).prologue(prologue)?.local_private_key(static_sk)?;
    if initiator {
        b.build_initiator()
    } else {
        b.build_responder()
    }
}

/// NoiseHandshakePayload {identity_key = 1, identity_sig = 2, extensions = 4}
pub fn payload(identity_key: &[u8], identity_sig: &[u8]) -> Vec<u8> {
    let mut w = kit::pb::W::new();
    if !identity_key.is_empty() {
        w = w.bytes(1, identity_key);
    }
    if !identity_sig.is_empty() {
        w = w.bytes(2, identity_sig);
    }
    w.finish()
}

/// what an identity must sign: domain prefix ++ static DH public key
pub fn to_sign(static_pk: &[u8]) -> Vec<u8> {
    [STATIC_KEY_DOMAIN, static_pk].concat()
}
