//! A small DER tree (parse / re-encode with recomputed lengths) and structure-aware edits:
//! for every TLV of a valid encoding its content is emptied, cut to prefixes, the node is deleted,
//! duplicated or re-tagged — and all enclosing lengths are recomputed, so that the edited encoding
//! is *well-formed* around the edit (raw byte mutations leave outer lengths inconsistent and are
//! rejected by the outermost layer of any DER reader).

#[derive(Clone, Debug)]
pub struct Node {
    pub tag: u8,
    /// bytes of the content that precede the children (the unused-bits byte of a BIT STRING that
    /// wraps DER); the whole content for a leaf
    pub val: Vec<u8>,
    /// children, for constructed nodes and for BIT/OCTET STRINGs whose content is itself DER
    pub kids: Option<Vec<Node>>,
}

fn tlv(b: &[u8]) -> Option<(u8, &[u8], &[u8])> {
    crate::keys::der_tlv(b)
}

pub fn parse_all(mut b: &[u8]) -> Option<Vec<Node>> {
    let mut out = Vec::new();
    while !b.is_empty() {
        let (tag, content, rest) = tlv(b)?;
        b = rest;
        let node = if tag & 0x20 != 0 {
            match parse_all(content) {
                Some(k) => Node { tag, val: vec![], kids: Some(k) },
                None => Node { tag, val: content.to_vec(), kids: None },
            }
        } else if tag == 0x03 && content.len() > 2 && content[0] == 0 && content[1] == 0x30 {
            match parse_all(&content[1..]) {
                Some(k) => Node { tag, val: vec![0], kids: Some(k) },
                None => Node { tag, val: content.to_vec(), kids: None },
            }
        } else if tag == 0x04 && content.len() > 2 && content[0] == 0x30 {
            match parse_all(content) {
                Some(k) => Node { tag, val: vec![], kids: Some(k) },
                None => Node { tag, val: content.to_vec(), kids: None },
            }
        } else {
            Node { tag, val: content.to_vec(), kids: None }
        };
        out.push(node);
    }
    Some(out)
}

pub fn content(n: &Node) -> Vec<u8> {
    let mut c = n.val.clone();
    if let Some(k) = &n.kids {
        for x in k {
            c.extend(encode(x));
        }
    }
    c
}

pub fn encode(n: &Node) -> Vec<u8> {
    let c = content(n);
    let mut v = vec![n.tag];
    let l = c.len();
    if l < 0x80 {
        v.push(l as u8);
    } else if l < 0x100 {
        v.extend_from_slice(&[0x81, l as u8]);
    } else if l < 0x10000 {
        v.extend_from_slice(&[0x82, (l >> 8) as u8, l as u8]);
    } else {
        v.extend_from_slice(&[0x83, (l >> 16) as u8, (l >> 8) as u8, l as u8]);
    }
    v.extend(c);
    v
}

fn paths(n: &Node, cur: &mut Vec<usize>, out: &mut Vec<Vec<usize>>) {
    out.push(cur.clone());
    if let Some(k) = &n.kids {
        for (i, c) in k.iter().enumerate() {
            cur.push(i);
            paths(c, cur, out);
            cur.pop();
        }
    }
}

fn at<'a>(n: &'a mut Node, p: &[usize]) -> &'a mut Node {
    match p.split_first() {
        None => n,
        Some((i, rest)) => at(&mut n.kids.as_mut().unwrap()[*i], rest),
    }
}

fn prefix_lens(len: usize) -> Vec<usize> {
    if len <= 48 {
        (0..len).collect()
    } else {
        let mut v = vec![0, 1, 2, 3, 4, 5, 8, len / 2, len - 2, len - 1];
        v.sort();
        v.dedup();
        v
    }
}

pub const RETAGS: [u8; 9] = [0x00, 0x02, 0x03, 0x04, 0x05, 0x06, 0x30, 0x31, 0xa0];

/// every structure-aware edit of a single-rooted DER encoding: (description, edited encoding)
pub fn edits(der: &[u8]) -> Vec<(String, Vec<u8>)> {
    let Some(roots) = parse_all(der) else { return vec![] };
    if roots.len() != 1 {
        return vec![];
    }
    let root = &roots[0];
    let mut ps = Vec::new();
    paths(root, &mut Vec::new(), &mut ps);
    let mut out = Vec::new();
    for p in &ps {
        let orig = {
            let mut r = root.clone();
            at(&mut r, p).clone()
        };
        let raw = content(&orig);
        // content cut to a raw prefix (0 = emptied), outer lengths recomputed
        for l in prefix_lens(raw.len()) {
            let mut r = root.clone();
            let n = at(&mut r, p);
            n.kids = None;
            n.val = raw[..l].to_vec();
            out.push((format!("{p:?} content[..{l}]"), encode(&r)));
        }
        // children dropped from the end (whole TLVs)
        if let Some(k) = &orig.kids {
            for keep in 0..k.len() {
                let mut r = root.clone();
                at(&mut r, p).kids.as_mut().unwrap().truncate(keep);
                out.push((format!("{p:?} keep {keep} children"), encode(&r)));
            }
        }
        // one extra content byte
        {
            let mut r = root.clone();
            let n = at(&mut r, p);
            let mut c = raw.clone();
            c.push(0);
            n.kids = None;
            n.val = c;
            out.push((format!("{p:?} content+00"), encode(&r)));
        }
        for t in RETAGS {
            if t != orig.tag {
                let mut r = root.clone();
                at(&mut r, p).tag = t;
                out.push((format!("{p:?} tag {t:#04x}"), encode(&r)));
            }
        }
        if let Some((last, parent)) = p.split_last() {
            let mut r = root.clone();
            at(&mut r, parent).kids.as_mut().unwrap().remove(*last);
            out.push((format!("{p:?} deleted"), encode(&r)));
            let mut r = root.clone();
            at(&mut r, parent).kids.as_mut().unwrap().insert(*last, orig.clone());
            out.push((format!("{p:?} duplicated"), encode(&r)));
        }
    }
    out
}
