//! C21 — signatures, signed envelopes and peer records are sound (E3 fault enumeration over
//! recorded artefacts: signatures, encoded envelopes).
//!
//! Readings settled on:
//!  * "decodes to an identical accepted record" is judged on the record content (peer id, seq,
//!    addresses) and, for the envelope accessor, on (payload, signing key): a mutated encoding
//!    that is accepted must yield exactly the original content;
//!  * peer records are built from a hand-encoded payload with a fixed `seq` (`PeerRecord::new`
//!    reads the real wall clock, which must not reach observations; it is exercised once for
//!    acceptance only).

use crate::edit::{all_edits, masks_all, masks_bits, Edit};
use crate::keys::{self, hex};
use kit::pb::W;
use libp2p_core::signed_envelope::{ReadPayloadError, SignedEnvelope};
use libp2p_core::{Multiaddr, PeerRecord};
use libp2p_identity::Keypair;
use mc::{json, Ctx, Meta, Outcome, Value};
use std::collections::HashMap;
use std::sync::{Mutex, OnceLock};

pub const META: Meta = Meta {
    level: "fault_enumeration",
    rule: "per key type (ed25519, secp256k1, ecdsa, rsa-2048): signatures over 3 messages (empty, 1 byte, 64 bytes): every 1-bit flip / truncation / 1-byte extension of the message and every single-byte xor (8 one-bit masks quick, all 255 thorough) / truncation / extension of the signature, every other message, every other key; envelopes: 4 signing (domain,type) pairs x 7 domains x 6 payload types; every single-byte substitution (255 values; rsa/ecdsa/secp256k1: 8 one-bit masks + 0xff in quick), truncation and extension of the encoded peer-record envelope in legacy and interop format; structural peer-record cases (other signer, crossed domain/type, garbage peer id / address); correctly signed envelopes (right domain, type and key, both formats) whose hand-built record names a variant of the signer's own peer id (multihash code re-labelled 0x00<->0x12 / 0x11 / 0x13 over the same digest, SHA-256 of the key under either code, digest shorter / longer / last bit flipped, length byte changed, truncated, extended, empty); boundary shifting: for 5 signed triples (domain, type, payload) per key type (two generic, legacy and interop peer records, with interior bytes chosen so that collisions exist) and every framing mistake (each subset of the three length prefixes missing from the signed bytes; ed25519 all 7, other keys 3), every re-parsing of the mis-framed concatenation into a different triple (boundaries moved by up to 8 bytes beyond each field), in both directions (signed for X presented as Y, signed for Y presented as X). Non-trivial = distinct mutated or mismatching cases (everything except the untouched baselines).",
    explanation: "Fault enumeration (E3) on recorded artefacts. Oracle: verify is true exactly for the untouched (message, signature, key); payload_and_signing_key succeeds exactly for the signing (domain, type) — in particular never for a triple obtained by moving bytes across the domain/type/payload boundaries; a mutated envelope is rejected at decoding, at verification, or yields exactly the original record content; a record whose peer id is not the signer's is rejected; no panic.",
    assumptions: &["cryptographic primitives are trusted; manipulations are enumerated, not computational", "signatures of all four schemes are deterministic (EdDSA, RFC 6979, PKCS#1 v1.5), so cases replay byte for byte"],
};

const LEGACY_TYPE: &[u8] = b"/libp2p/routing-state-record";
const LEGACY_DOMAIN: &str = "libp2p-routing-state";
const STD_TYPE: &[u8] = &[0x03, 0x01];
const STD_DOMAIN: &str = "libp2p-peer-record";
const SEQ: u64 = 7;

fn msgs(i: usize) -> Vec<u8> {
    match i {
        0 => vec![],
        1 => vec![0x61],
        _ => (0..64u8).collect(),
    }
}
fn addrs() -> Vec<Multiaddr> {
    vec!["/ip4/127.0.0.1/tcp/1337".parse().unwrap(), "/memory/5".parse().unwrap()]
}
fn record_payload(peer_id: &[u8], addrs: &[Vec<u8>]) -> Vec<u8> {
    let mut w = W::new().bytes(1, peer_id).uint(2, SEQ);
    for a in addrs {
        w = w.msg(3, &W::new().bytes(1, a));
    }
    w.finish()
}
fn fmt_consts(fmt: u64) -> (&'static str, &'static [u8]) {
    if fmt == 0 {
        (LEGACY_DOMAIN, LEGACY_TYPE)
    } else {
        (STD_DOMAIN, STD_TYPE)
    }
}

/// baseline peer-record envelope bytes for (kind, fmt), cached (RSA signing is slow)
fn baseline(kind: usize, fmt: u64) -> Vec<u8> {
    static CACHE: OnceLock<Mutex<HashMap<(usize, u64), Vec<u8>>>> = OnceLock::new();
    let m = CACHE.get_or_init(Default::default);
    if let Some(v) = m.lock().unwrap().get(&(kind, fmt)) {
        return v.clone();
    }
    let kp = keys::key(kind, 0);
    let (d, t) = fmt_consts(fmt);
    let payload = record_payload(&kp.public().to_peer_id().to_bytes(), &addrs().iter().map(|a| a.to_vec()).collect::<Vec<_>>());
    let env = SignedEnvelope::new(&kp, d.to_string(), t.to_vec(), payload).expect("sign");
    let bytes = env.into_protobuf_encoding();
    m.lock().unwrap().insert((kind, fmt), bytes.clone());
    bytes
}

fn from_env(fmt: u64, e: SignedEnvelope) -> Result<PeerRecord, String> {
    if fmt == 0 { PeerRecord::from_signed_envelope(e) } else { PeerRecord::from_signed_envelope_interop(e) }.map_err(|e| format!("{e:?}"))
}

// ---------------------------------------------------------------------------------------------

fn sig_case(c: &Value) -> Result<&'static str, String> {
    let kind = c["k"].as_u64().unwrap_or(0) as usize;
    let name = keys::KINDS[kind];
    let mi = c["msg"].as_u64().unwrap_or(0) as usize;
    let kp = keys::key(kind, 0);
    let pk = kp.public();
    let msg = msgs(mi);
    let sig = mc::catch(|| kp.sign(&msg)).map_err(|p| format!("sign-panic :: {name}: {p}"))?.map_err(|e| format!("sign-fails :: {name}: {e}"))?;
    let edit = Edit::from_json(&c["edit"]);
    let on = c["on"].as_str().unwrap_or("none");
    let verify = |pk: &libp2p_identity::PublicKey, m: &[u8], s: &[u8]| mc::catch(|| pk.verify(m, s)).map_err(|p| format!("verify-panic :: {name}: {p} at {:?}", mc::shim::last_panic_loc()));
    match on {
        "none" => {
            if !verify(&pk, &msg, &sig)? {
                return Err(format!("valid-signature-rejected :: {name}: own signature over message #{mi} does not verify"));
            }
            Ok("valid")
        }
        "msg" => {
            let m2 = edit.apply(&msg);
            if m2 == msg {
                return Ok("noop");
            }
            if verify(&pk, &m2, &sig)? {
                return Err(format!("signature-verifies-for-other-message :: {name}: signature over {} verifies for {}", hex(&msg), hex(&m2)));
            }
            Ok("msg-mutation-rejected")
        }
        "sig" => {
            let s2 = edit.apply(&sig);
            if s2 == sig {
                return Ok("noop");
            }
            if verify(&pk, &msg, &s2)? {
                return Err(format!("mutated-signature-verifies :: {name}: {:?} applied to the {}-byte signature still verifies ({} -> {})", edit, sig.len(), hex(&sig), hex(&s2)));
            }
            Ok("sig-mutation-rejected")
        }
        "othermsg" => {
            let j = c["other"].as_u64().unwrap_or(0) as usize;
            if j != mi && verify(&pk, &msgs(j), &sig)? {
                return Err(format!("signature-verifies-for-other-message :: {name}: message #{mi} signature verifies for message #{j}"));
            }
            Ok("other-message-rejected")
        }
        "otherkey" => {
            let k2 = c["ok"].as_u64().unwrap_or(0) as usize;
            let i2 = c["oi"].as_u64().unwrap_or(0) as u8;
            if k2 == kind && i2 == 0 {
                return Ok("noop");
            }
            if verify(&keys::key(k2, i2).public(), &msg, &sig)? {
                return Err(format!("signature-verifies-under-other-key :: {name} signature verifies under {}#{i2}", keys::KINDS[k2]));
            }
            Ok("other-key-rejected")
        }
        _ => Err("bad case".into()),
    }
}

const DOMAINS: [&str; 7] = ["libp2p-test", "", "libp2p-tes", "libp2p-testx", "libp2p-routing-state", "ab", "a"];
const TYPES: [&[u8]; 6] = [b"/t/1", b"", b"/t/", b"/t/12", b"c", b"bc"];
const SIGN_PAIRS: [(usize, usize); 4] = [(0, 0), (5, 4), (6, 5), (1, 1)];

fn signed_for(kind: usize, sp: usize) -> SignedEnvelope {
    static CACHE: OnceLock<Mutex<HashMap<(usize, usize), SignedEnvelope>>> = OnceLock::new();
    let m = CACHE.get_or_init(Default::default);
    if let Some(v) = m.lock().unwrap().get(&(kind, sp)) {
        return v.clone();
    }
    let (sd, st) = SIGN_PAIRS[sp];
    let e = SignedEnvelope::new(&keys::key(kind, 0), DOMAINS[sd].to_string(), TYPES[st].to_vec(), b"payload-c21".to_vec()).expect("sign");
    m.lock().unwrap().insert((kind, sp), e.clone());
    e
}

fn env_dt_case(c: &Value) -> Result<&'static str, String> {
    let kind = c["k"].as_u64().unwrap_or(0) as usize;
    let name = keys::KINDS[kind];
    let sp = c["sp"].as_u64().unwrap_or(0) as usize;
    let (d, t) = (c["d"].as_u64().unwrap_or(0) as usize, c["t"].as_u64().unwrap_or(0) as usize);
    let (sd, st) = SIGN_PAIRS[sp];
    let env = signed_for(kind, sp);
    // through the wire encoding as well
    let bytes = env.clone().into_protobuf_encoding();
    let want = W::new().bytes(1, &keys::key(kind, 0).public().encode_protobuf());
    let want = if TYPES[st].is_empty() { want } else { want.bytes(2, TYPES[st]) }.bytes(3, b"payload-c21");
    if !bytes.starts_with(&want.0) {
        return Err(format!("envelope-encoding-differs :: {name}: {} does not start with reference {}", hex(&bytes), hex(&want.0)));
    }
    let env2 = mc::catch(|| SignedEnvelope::from_protobuf_encoding(&bytes)).map_err(|p| format!("envelope-decode-panic :: {p}"))?.map_err(|e| format!("envelope-roundtrip :: {name}: own encoding rejected: {e}"))?;
    if env2 != env {
        return Err(format!("envelope-roundtrip :: {name}: decode(encode(e)) != e"));
    }
    let should = DOMAINS[d] == DOMAINS[sd] && TYPES[t] == TYPES[st];
    let r = mc::catch(|| env2.payload_and_signing_key(DOMAINS[d].to_string(), TYPES[t]).map(|(p, k)| (p.to_vec(), k.clone()))).map_err(|p| format!("envelope-read-panic :: {p}"))?;
    let v = mc::catch(|| env2.verify(DOMAINS[d].to_string())).map_err(|p| format!("envelope-verify-panic :: {p}"))?;
    if v != (DOMAINS[d] == DOMAINS[sd]) {
        return Err(format!("envelope-verify-domain :: {name}: signed for domain {:?}, verify({:?}) = {v}", DOMAINS[sd], DOMAINS[d]));
    }
    match (r, should) {
        (Ok((p, k)), true) => {
            if p != b"payload-c21" || k != keys::key(kind, 0).public() {
                return Err(format!("envelope-content-differs :: {name}: payload/key returned differ from what was signed"));
            }
            Ok("envelope-accepted")
        }
        (Err(_), true) => Err(format!("envelope-rejects-own-domain-type :: {name}: signed for ({:?},{:?}) and read with the same pair fails", DOMAINS[sd], TYPES[st])),
        (Ok(_), false) => Err(format!("envelope-accepted-with-wrong-domain-or-type :: {name}: signed for ({:?},{:?}), accepted with ({:?},{:?})", DOMAINS[sd], TYPES[st], DOMAINS[d], TYPES[t])),
        (Err(ReadPayloadError::UnexpectedPayloadType { .. }), false) => Ok("envelope-rejected-type"),
        (Err(ReadPayloadError::InvalidSignature), false) => Ok("envelope-rejected-signature"),
    }
}

fn env_mut_case(c: &Value) -> Result<&'static str, String> {
    let kind = c["k"].as_u64().unwrap_or(0) as usize;
    let name = keys::KINDS[kind];
    let fmt = c["fmt"].as_u64().unwrap_or(0);
    let edit = Edit::from_json(&c["edit"]);
    let base = baseline(kind, fmt);
    let bytes = edit.apply(&base);
    let signer = keys::key(kind, 0).public();
    let env = match mc::catch(|| SignedEnvelope::from_protobuf_encoding(&bytes)).map_err(|p| format!("envelope-decode-panic :: {p} at {:?}", mc::shim::last_panic_loc()))? {
        Ok(e) => e,
        Err(_) => {
            if edit.is_none() {
                return Err(format!("envelope-roundtrip :: {name}: baseline encoding rejected"));
            }
            return Ok("rejected-at-decode");
        }
    };
    let (d, t) = fmt_consts(fmt);
    // accessor
    let acc = mc::catch(|| env.payload_and_signing_key(d.to_string(), t).map(|(p, k)| (p.to_vec(), k.clone()))).map_err(|p| format!("envelope-read-panic :: {p} at {:?}", mc::shim::last_panic_loc()))?;
    let want_payload = record_payload(&signer.to_peer_id().to_bytes(), &addrs().iter().map(|a| a.to_vec()).collect::<Vec<_>>());
    let acc_class = match &acc {
        Ok((p, k)) => {
            if *p != want_payload || *k != signer {
                return Err(format!("mutated-envelope-accepted-with-different-content :: {name} fmt {fmt}: {edit:?} gives payload {} key-equal={}", hex(p), *k == signer));
            }
            "ok"
        }
        Err(ReadPayloadError::InvalidSignature) => "sig",
        Err(ReadPayloadError::UnexpectedPayloadType { .. }) => "type",
    };
    // record
    let rec = mc::catch(|| from_env(fmt, env.clone())).map_err(|p| format!("record-from-envelope-panic :: {p} at {:?}", mc::shim::last_panic_loc()))?;
    // the other format must never accept it
    let other = mc::catch(|| from_env(1 - fmt, env.clone())).map_err(|p| format!("record-from-envelope-panic :: {p}"))?;
    if other.is_ok() {
        return Err(format!("record-accepted-in-other-format :: {name}: envelope for format {fmt} ({edit:?}) accepted by the other format's reader"));
    }
    match rec {
        Ok(r) => {
            if acc_class != "ok" {
                return Err(format!("record-accepted-but-envelope-rejected :: {name}: {edit:?}"));
            }
            if r.peer_id() != signer.to_peer_id() || r.seq() != SEQ || r.addresses() != addrs().as_slice() {
                return Err(format!("mutated-envelope-accepted-with-different-record :: {name} fmt {fmt}: {edit:?} gives peer {} seq {} addrs {:?}", r.peer_id(), r.seq(), r.addresses()));
            }
            Ok(if edit.is_none() { "baseline-accepted" } else { "mutated-accepted-identical" })
        }
        Err(e) => {
            if edit.is_none() {
                return Err(format!("record-roundtrip :: {name} fmt {fmt}: baseline rejected: {e}"));
            }
            if acc_class == "ok" {
                // the envelope (payload, key) is intact but the record reader refused: only possible
                // if the payload differs, which was excluded above
                return Err(format!("record-rejected-with-intact-envelope :: {name}: {edit:?}: {e}"));
            }
            Ok(if acc_class == "sig" { "rejected-signature" } else { "rejected-type" })
        }
    }
}

// ---------------------------------------------------------------------------------------------
// boundary shifting: (domain, type, payload) triples whose concatenation collides under a framing
// mistake. `mask` bit 0/1/2 = the length prefix of domain / type / payload is part of the signed
// bytes (7 = RFC 0002). For every mask != 7 and every re-parsing Y of ser(mask, X) with Y != X, a
// signature made for X must not be accepted for Y, and vice versa.

fn ser(mask: u8, d: &[u8], t: &[u8], p: &[u8]) -> Vec<u8> {
    let mut v = Vec::new();
    for (bit, x) in [(1u8, d), (2, t), (4, p)] {
        if mask & bit != 0 {
            kit::pb::varint(x.len() as u64, &mut v);
        }
        v.extend_from_slice(x);
    }
    v
}

fn seg(b: &[u8], framed: bool) -> Option<Vec<u8>> {
    if !framed {
        return Some(b.to_vec());
    }
    let (l, n) = kit::pb::read_varint(b)?;
    if n > 2 || (b.len() - n) as u64 != l || kit::pb::varint_vec(l).len() != n {
        return None;
    }
    Some(b[n..].to_vec())
}

type Triple = (String, Vec<u8>, Vec<u8>);

fn dns_record(kind: usize, total: usize) -> Vec<u8> {
    // a peer record of exactly `total` bytes: one /dns4 address whose name pads to the length
    let pid = keys::key(kind, 0).public().to_peer_id().to_bytes();
    let n = total - (2 + pid.len()) - 2 - 6;
    let mut addr = vec![0x36, n as u8];
    addr.extend(std::iter::repeat(b'a').take(n));
    let r = record_payload(&pid, &[addr]);
    assert_eq!(r.len(), total);
    r
}

fn shift_bases(kind: usize) -> Vec<Triple> {
    let pid = keys::key(kind, 0).public().to_peer_id().to_bytes();
    let a: Vec<Vec<u8>> = addrs().iter().map(|a| a.to_vec()).collect();
    vec![
        // interior type byte 0x0e = length of "xy" | varint(11) | payload
        ("libp2p-test".into(), [b"/t/".as_slice(), &[14], b"xy"].concat(), b"payload-c21".to_vec()),
        // 'r' (114) of "...state-record" = length of "ecord" | varint(108) | 108-byte record
        (LEGACY_DOMAIN.into(), LEGACY_TYPE.to_vec(), dns_record(kind, 108)),
        (STD_DOMAIN.into(), STD_TYPE.to_vec(), record_payload(&pid, &a)),
        ("ab".into(), b"c".to_vec(), b"de".to_vec()),
        // interior domain byte 0x08 = length of "ain" | varint(4) | "/t/1"
        ("dom\u{8}ain".into(), b"/t/1".to_vec(), b"payload-c21".to_vec()),
    ]
}

fn shift_candidate(base: &Triple, mask: u8, i: usize, j: usize) -> Option<Triple> {
    let b = ser(mask, base.0.as_bytes(), &base.1, &base.2);
    if !(i <= j && j <= b.len()) {
        return None;
    }
    let d = seg(&b[..i], mask & 1 != 0)?;
    let t = seg(&b[i..j], mask & 2 != 0)?;
    let p = seg(&b[j..], mask & 4 != 0)?;
    let d = String::from_utf8(d).ok()?;
    let y = (d, t, p);
    if y == *base {
        return None;
    }
    Some(y)
}

fn shift_splits(base: &Triple, mask: u8) -> Vec<(usize, usize)> {
    let b = ser(mask, base.0.as_bytes(), &base.1, &base.2);
    let d_end = ser(mask & 1, base.0.as_bytes(), &[], &[]).len();
    let t_end = ser(mask & 3, base.0.as_bytes(), &base.1, &[]).len();
    let mut seen = std::collections::BTreeSet::new();
    let mut out = Vec::new();
    for i in 0..=(d_end + 8).min(b.len()) {
        for j in i..=(t_end + 8).min(b.len()) {
            if let Some(y) = shift_candidate(base, mask, i, j) {
                if seen.insert(y) {
                    out.push((i, j));
                }
            }
        }
    }
    out
}

fn shift_case(c: &Value) -> Result<&'static str, String> {
    let u = |k: &str| c[k].as_u64().unwrap_or(0);
    let kind = u("k") as usize;
    let name = keys::KINDS[kind];
    let bases = shift_bases(kind);
    let base = bases.get(u("base") as usize).ok_or("bad case")?.clone();
    let mask = u("mask") as u8;
    let cand = shift_candidate(&base, mask, u("i") as usize, u("j") as usize).ok_or("bad case: no candidate at this split")?;
    let (x, y) = if u("dir") == 0 { (base, cand) } else { (cand, base) };
    let kp = keys::key(kind, 0);
    // the key holder signs X ...
    static CACHE: OnceLock<Mutex<HashMap<(usize, Triple), Vec<u8>>>> = OnceLock::new();
    let m = CACHE.get_or_init(Default::default);
    let cached = m.lock().unwrap().get(&(kind, x.clone())).cloned();
    let sig = match cached {
        Some(s) => s,
        None => {
            let e = SignedEnvelope::new(&kp, x.0.clone(), x.1.clone(), x.2.clone()).map_err(|e| format!("sign-fails :: {e}"))?;
            let enc = e.into_protobuf_encoding();
            let sig = kit::pb::parse(&enc).and_then(|f| f.into_iter().find_map(|f| if let kit::pb::Field::Bytes(5, s) = f { Some(s) } else { None })).ok_or("harness: no signature field")?;
            if u("dir") == 0 {
                m.lock().unwrap().insert((kind, x.clone()), sig.clone());
            }
            sig
        }
    };
    // ... and the adversary presents the signature with Y
    let mut w = W::new().bytes(1, &kp.public().encode_protobuf());
    if !y.1.is_empty() {
        w = w.bytes(2, &y.1);
    }
    if !y.2.is_empty() {
        w = w.bytes(3, &y.2);
    }
    let forged = w.bytes(5, &sig).finish();
    let env = match mc::catch(|| SignedEnvelope::from_protobuf_encoding(&forged)).map_err(|p| format!("envelope-decode-panic :: {p}"))? {
        Ok(e) => e,
        Err(_) => return Ok("shift-rejected-at-decode"),
    };
    let what = format!("{name}: signed for (domain {:?}, type {}, payload {} bytes), presented as (domain {:?}, type {}, payload {} bytes) [framing mask {mask}]", x.0, hex(&x.1), x.2.len(), y.0, hex(&y.1), y.2.len());
    let r = mc::catch(|| env.payload_and_signing_key(y.0.clone(), &y.1).map(|_| ())).map_err(|p| format!("envelope-read-panic :: {p}"))?;
    if r.is_ok() {
        return Err(format!("envelope-accepted-with-shifted-boundary :: {what}"));
    }
    for fmt in 0..2u64 {
        let (d, t) = fmt_consts(fmt);
        if y.0 == d && y.1 == t && mc::catch(|| from_env(fmt, env.clone())).map_err(|p| format!("record-from-envelope-panic :: {p}"))?.is_ok() {
            return Err(format!("record-accepted-with-shifted-boundary :: {what}"));
        }
    }
    Ok(if y.1 == LEGACY_TYPE || y.1 == STD_TYPE { "shift-rejected-record-type" } else { "shift-rejected" })
}

fn rec_case(c: &Value) -> Result<&'static str, String> {
    let kind = c["k"].as_u64().unwrap_or(0) as usize;
    let name = keys::KINDS[kind];
    let variant = c["variant"].as_str().unwrap_or("");
    let kp = keys::key(kind, 0);
    let me = kp.public().to_peer_id();
    let a: Vec<Vec<u8>> = addrs().iter().map(|a| a.to_vec()).collect();
    let build = |signer: &Keypair, d: &str, t: &[u8], payload: Vec<u8>| SignedEnvelope::new(signer, d.to_string(), t.to_vec(), payload).map_err(|e| format!("sign-fails :: {e}"));
    // returns (legacy result, interop result) through the wire encoding
    let both = |e: SignedEnvelope| -> Result<(Result<PeerRecord, String>, Result<PeerRecord, String>), String> {
        let bytes = e.into_protobuf_encoding();
        let e2 = SignedEnvelope::from_protobuf_encoding(&bytes).map_err(|e| format!("envelope-roundtrip :: {name}: {e}"))?;
        let l = mc::catch(|| from_env(0, e2.clone())).map_err(|p| format!("record-from-envelope-panic :: {p} at {:?}", mc::shim::last_panic_loc()))?;
        let i = mc::catch(|| from_env(1, e2.clone())).map_err(|p| format!("record-from-envelope-panic :: {p} at {:?}", mc::shim::last_panic_loc()))?;
        Ok((l, i))
    };
    let check_ok = |r: &Result<PeerRecord, String>, what: &str| -> Result<(), String> {
        match r {
            Ok(r) if r.peer_id() == me && r.seq() == SEQ && r.addresses() == addrs().as_slice() => Ok(()),
            Ok(r) => Err(format!("record-content-differs :: {name} {what}: peer {} seq {}", r.peer_id(), r.seq())),
            Err(e) => Err(format!("record-roundtrip :: {name} {what}: honest record rejected: {e}")),
        }
    };
    let reject_both = |e: SignedEnvelope, sig: &str| -> Result<&'static str, String> {
        let (l, i) = both(e)?;
        if l.is_ok() || i.is_ok() {
            return Err(format!("{sig} :: {name} {variant}: accepted (legacy {} interop {})", l.is_ok(), i.is_ok()));
        }
        Ok("record-rejected")
    };
    let good = record_payload(&me.to_bytes(), &a);
    match variant {
        "honest-legacy" => {
            let (l, i) = both(build(&kp, LEGACY_DOMAIN, LEGACY_TYPE, good)?)?;
            check_ok(&l, "legacy")?;
            if i.is_ok() {
                return Err(format!("record-accepted-in-other-format :: {name}: legacy record accepted by interop reader"));
            }
            Ok("record-accepted")
        }
        "honest-interop" => {
            let (l, i) = both(build(&kp, STD_DOMAIN, STD_TYPE, good)?)?;
            check_ok(&i, "interop")?;
            if l.is_ok() {
                return Err(format!("record-accepted-in-other-format :: {name}: interop record accepted by legacy reader"));
            }
            Ok("record-accepted")
        }
        "crossed-domain-type-a" => reject_both(build(&kp, LEGACY_DOMAIN, STD_TYPE, good)?, "record-accepted-with-wrong-domain-or-type"),
        "crossed-domain-type-b" => reject_both(build(&kp, STD_DOMAIN, LEGACY_TYPE, good)?, "record-accepted-with-wrong-domain-or-type"),
        "foreign-domain" => reject_both(build(&kp, "libp2p-test", LEGACY_TYPE, good)?, "record-accepted-with-wrong-domain-or-type"),
        "other-signer-legacy" | "other-signer-interop" | "other-kind-signer-legacy" | "other-kind-signer-interop" => {
            // record names `me`, envelope signed (validly) by someone else
            let signer = if variant.starts_with("other-kind") { keys::key((kind + 1) % 4, 0) } else { keys::key(kind, 1) };
            let (d, t) = fmt_consts(if variant.ends_with("legacy") { 0 } else { 1 });
            reject_both(build(&signer, d, t, good)?, "record-accepted-with-foreign-peer-id")
        }
        v if v.starts_with("pid-") => {
            // a correctly signed envelope (right domain and type, signer's own key) whose record
            // names a peer id that is a *variant* of the signer's id: accepted => peer_id() == signer
            let idb = me.to_bytes();
            let (code, digest) = (idb[0], idb[2..].to_vec());
            let mh = |c: u8, d: &[u8]| {
                let mut x = vec![c, d.len() as u8];
                x.extend_from_slice(d);
                x
            };
            let fmt = if v.ends_with("-interop") { 1 } else { 0 };
            let name = v.trim_start_matches("pid-").trim_end_matches("-interop").trim_end_matches("-legacy");
            let pid: Vec<u8> = match name {
                "relabel" => mh(if code == 0 { 0x12 } else { 0x00 }, &digest),
                "relabel-sha1" => mh(0x11, &digest),
                "relabel-sha512" => mh(0x13, &digest),
                "digest-shorter" => mh(code, &digest[..digest.len() - 1]),
                "digest-longer" => mh(code, &[digest.as_slice(), &[0]].concat()),
                "digest-last-bit" => {
                    let mut d = digest.clone();
                    *d.last_mut().unwrap() ^= 1;
                    mh(code, &d)
                }
                "relabel-sha256-of-key" => mh(0x12, &keys::sha256(&kp.public().encode_protobuf())),
                "relabel-identity-of-hash" => mh(0x00, &keys::sha256(&kp.public().encode_protobuf())),
                "length-byte-only" => {
                    let mut x = idb.clone();
                    x[1] = x[1].wrapping_sub(1);
                    x
                }
                "truncated" => idb[..idb.len() - 1].to_vec(),
                "extended" => [idb.as_slice(), &[0]].concat(),
                "empty" => vec![],
                _ => return Err("bad case".into()),
            };
            if pid == idb {
                return Ok("noop");
            }
            let (d, t) = fmt_consts(fmt);
            let e = build(&kp, d, t, record_payload(&pid, &a))?;
            let (l, i) = both(e)?;
            for r in [&l, &i] {
                if let Ok(r) = r {
                    if r.peer_id() != me {
                        return Err(format!("record-peer-id-not-signer :: {name} {variant}: record accepted with peer_id() = {} (bytes {}), the envelope was signed by {me}", r.peer_id(), hex(&pid)));
                    }
                    return Err(format!("record-accepted-with-variant-peer-id :: {name} {variant}: peer id bytes {} accepted", hex(&pid)));
                }
            }
            Ok("record-rejected")
        }
        "garbage-peer-id" => reject_both(build(&kp, LEGACY_DOMAIN, LEGACY_TYPE, record_payload(&[0x12, 0x05, 1, 2], &a))?, "record-accepted-with-garbage-peer-id"),
        "empty-peer-id" => reject_both(build(&kp, STD_DOMAIN, STD_TYPE, record_payload(&[], &a))?, "record-accepted-with-garbage-peer-id"),
        "garbage-address" => reject_both(build(&kp, LEGACY_DOMAIN, LEGACY_TYPE, record_payload(&me.to_bytes(), &[vec![0xff, 0xff, 0x01]]))?, "record-accepted-with-garbage-address"),
        "garbage-payload" => reject_both(build(&kp, STD_DOMAIN, STD_TYPE, vec![0x0a, 0xff, 0xff])?, "record-accepted-with-garbage-payload"),
        "new-api" => {
            // PeerRecord::new reads the wall clock for seq: only acceptance and content other than seq are judged
            for fmt in 0..2u64 {
                let r = mc::catch(|| if fmt == 0 { PeerRecord::new(&kp, addrs()) } else { PeerRecord::new_interop(&kp, addrs()) }).map_err(|p| format!("record-new-panic :: {p}"))?.map_err(|e| format!("sign-fails :: {e}"))?;
                let bytes = r.to_signed_envelope().into_protobuf_encoding();
                let e2 = SignedEnvelope::from_protobuf_encoding(&bytes).map_err(|e| format!("envelope-roundtrip :: {name}: {e}"))?;
                match from_env(fmt, e2.clone()) {
                    Ok(r2) if r2 == r && r2.peer_id() == me && r2.addresses() == addrs().as_slice() => {}
                    Ok(_) => return Err(format!("record-content-differs :: {name} new-api fmt {fmt}")),
                    Err(e) => return Err(format!("record-roundtrip :: {name} new-api fmt {fmt}: {e}")),
                }
                if from_env(1 - fmt, e2).is_ok() {
                    return Err(format!("record-accepted-in-other-format :: {name} new-api fmt {fmt}"));
                }
            }
            Ok("record-accepted")
        }
        _ => Err("bad case".into()),
    }
}

const REC_VARIANTS: [&str; 38] = [
    "honest-legacy",
    "honest-interop",
    "crossed-domain-type-a",
    "crossed-domain-type-b",
    "foreign-domain",
    "other-signer-legacy",
    "other-signer-interop",
    "other-kind-signer-legacy",
    "other-kind-signer-interop",
    "garbage-peer-id",
    "empty-peer-id",
    "garbage-address",
    "garbage-payload",
    "new-api",
    "pid-relabel-legacy",
    "pid-relabel-interop",
    "pid-relabel-sha1-legacy",
    "pid-relabel-sha1-interop",
    "pid-relabel-sha512-legacy",
    "pid-relabel-sha512-interop",
    "pid-digest-shorter-legacy",
    "pid-digest-shorter-interop",
    "pid-digest-longer-legacy",
    "pid-digest-longer-interop",
    "pid-digest-last-bit-legacy",
    "pid-digest-last-bit-interop",
    "pid-relabel-sha256-of-key-legacy",
    "pid-relabel-sha256-of-key-interop",
    "pid-relabel-identity-of-hash-legacy",
    "pid-relabel-identity-of-hash-interop",
    "pid-length-byte-only-legacy",
    "pid-length-byte-only-interop",
    "pid-truncated-legacy",
    "pid-truncated-interop",
    "pid-extended-legacy",
    "pid-extended-interop",
    "pid-empty-legacy",
    "pid-empty-interop",
];

fn run_case(c: &Value) -> Result<&'static str, String> {
    match c["kind"].as_str() {
        Some("sig") => sig_case(c),
        Some("env_dt") => env_dt_case(c),
        Some("env_mut") => env_mut_case(c),
        Some("rec") => rec_case(c),
        Some("shift") => shift_case(c),
        _ => Err("bad replay case".into()),
    }
}

struct En<'a> {
    ctx: &'a Ctx,
    out: Outcome,
    n: u64,
}
impl En<'_> {
    fn case(&mut self, section: &str, trivial: bool, case: Value) {
        self.n += 1;
        if !self.ctx.mine(self.n) {
            return;
        }
        self.out.evaluations += 1;
        if !trivial {
            self.out.nontrivial(&case.to_string());
        }
        match run_case(&case) {
            Ok(class) => self.out.count(&format!("{section}_{class}"), 1),
            Err(m) => {
                let k = keys::KINDS[case["k"].as_u64().unwrap_or(0) as usize];
                self.out.violation(format!("{} {k}", mc::bfs::signature_of(&m)), m, case.clone())
            }
        }
        if self.n % 9973 == 5 {
            self.out.sample(case);
        }
    }
}

pub fn run(ctx: &Ctx) -> Outcome {
    if let Some(case) = &ctx.replay {
        let mut out = Outcome::default();
        out.evaluations = 1;
        if let Err(m) = run_case(case) {
            let k = keys::KINDS[case["k"].as_u64().unwrap_or(0) as usize];
            out.violation(format!("{} {k}", mc::bfs::signature_of(&m)), m, case.clone());
        }
        return out;
    }
    let mut out = mc::workers(ctx, 16, |ctx| {
        let mut en = En { ctx, out: Outcome::default(), n: 0 };
        for kind in 0..4usize {
            // ---- raw signatures
            for mi in 0..3usize {
                en.case("sig", true, json!({"kind":"sig","k":kind,"msg":mi,"on":"none"}));
                let msg = msgs(mi);
                for e in all_edits(msg.len(), &masks_bits()) {
                    en.case("sig", false, json!({"kind":"sig","k":kind,"msg":mi,"on":"msg","edit":e.to_json()}));
                }
                let siglen = keys::key(kind, 0).sign(&msg).map(|s| s.len()).unwrap_or(0);
                let masks = if ctx.quick() { masks_bits() } else { masks_all() };
                for e in all_edits(siglen, &masks) {
                    en.case("sig", false, json!({"kind":"sig","k":kind,"msg":mi,"on":"sig","edit":e.to_json()}));
                }
                for j in 0..3usize {
                    if j != mi {
                        en.case("sig", false, json!({"kind":"sig","k":kind,"msg":mi,"on":"othermsg","other":j}));
                    }
                }
                for k2 in 0..4usize {
                    for i2 in 0..2u8 {
                        if !(k2 == kind && i2 == 0) {
                            en.case("sig", false, json!({"kind":"sig","k":kind,"msg":mi,"on":"otherkey","ok":k2,"oi":i2}));
                        }
                    }
                }
            }
            // ---- envelope domain / payload type matrix
            for sp in 0..SIGN_PAIRS.len() {
                for d in 0..DOMAINS.len() {
                    for t in 0..TYPES.len() {
                        let (sd, st) = SIGN_PAIRS[sp];
                        en.case("dt", sd == d && st == t, json!({"kind":"env_dt","k":kind,"sp":sp,"d":d,"t":t}));
                    }
                }
            }
            // ---- boundary shifting between domain / type / payload
            let bases = shift_bases(kind);
            let masks: &[u8] = if kind == 0 { &[0, 1, 2, 3, 4, 5, 6] } else { &[4, 5, 6] };
            for (bi, base) in bases.iter().enumerate() {
                for &mask in masks {
                    for (i, j) in shift_splits(base, mask) {
                        for dir in 0..2u64 {
                            en.case("shift", false, json!({"kind":"shift","k":kind,"base":bi,"mask":mask,"i":i,"j":j,"dir":dir}));
                        }
                    }
                }
            }
            // ---- peer-record structure
            for v in REC_VARIANTS {
                en.case("rec", v.starts_with("honest") || v == "new-api", json!({"kind":"rec","k":kind,"variant":v}));
            }
            // ---- envelope mutations
            for fmt in 0..2u64 {
                let len = baseline(kind, fmt).len();
                en.case("env", true, json!({"kind":"env_mut","k":kind,"fmt":fmt,"edit":Edit::None.to_json()}));
                let masks = if ctx.quick() && kind != 0 {
                    let mut m = masks_bits();
                    m.push(0xff);
                    m
                } else {
                    masks_all()
                };
                for e in all_edits(len, &masks) {
                    en.case("env", false, json!({"kind":"env_mut","k":kind,"fmt":fmt,"edit":e.to_json()}));
                }
            }
        }
        en.out
    });
    out.sample(json!({"kind":"rec","k":0,"variant":"other-signer-legacy","note":"record names key #0, envelope validly signed by key #1: must be rejected"}));
    if out.violations.is_empty() {
        for (k, min) in [
            ("sig_valid", 12u64),
            ("sig_msg-mutation-rejected", 1),
            ("sig_sig-mutation-rejected", 1),
            ("sig_other-key-rejected", 1),
            ("dt_envelope-accepted", 16),
            ("dt_envelope-rejected-type", 1),
            ("dt_envelope-rejected-signature", 1),
            ("shift_shift-rejected", 100),
            ("shift_shift-rejected-record-type", 8),
            ("rec_record-accepted", 12),
            ("rec_record-rejected", 120),
            ("env_baseline-accepted", 8),
            ("env_rejected-at-decode", 1),
            ("env_rejected-signature", 1),
            ("env_rejected-type", 1),
        ] {
            if out.get(k) < min {
                out.machinery(format!("vacuity: counter {k} = {} (< {min})", out.get(k)));
            }
        }
    }
    out
}
