//! C17 — the noise secure channel delivers exactly the written bytes or fails.
//!  delivery (E1): two real `noise::Output` ends after a real handshake; write-size sequences
//!      around MAX_FRAME_LEN x flush placement x explorer-controlled chunking / Pending / schedule;
//!  tamper (E3): every ciphertext byte x bit flips of a recorded 3-frame stream, then EOF.
//!
//! Readings settled on:
//!  * "modification of ciphertext" = changing bytes (the quantifier says single-byte corruption).
//!    Pure truncation of the stream (dropping a suffix) is enumerated too, but only "the bytes read
//!    are a prefix of the plaintext" is demanded there: noise has no end-of-stream authentication
//!    and the statement does not ask for one.

use crate::edit::{masks_all, masks_bits, Edit};
use crate::keys::{self, hex};
use crate::noise_kit::{take_frames, Chunky, Link, MAX_FRAME_LEN};
use futures::{AsyncReadExt, AsyncWriteExt};
use kit::pipe::{self, PipeCfg};
use kit::tasks::{RunEnd, Tasks};
use libp2p_core::upgrade::{InboundConnectionUpgrade, OutboundConnectionUpgrade};
use libp2p_identity::PeerId;
use mc::choice::{self, Chooser};
use mc::{json, Ctx, Meta, Outcome, Value};
use std::cell::{Cell, RefCell};
use std::rc::Rc;
use std::sync::atomic::{AtomicBool, Ordering::SeqCst};
use std::sync::Arc;
use std::task::{Poll, Waker};

pub const META: Meta = Meta {
    level: "model_checking",
    rule: "delivery (E1): write sequences over sizes {0,1,2,MAX-1,MAX,MAX+1,2*MAX+1} (MAX = 64511): quick = every single write (either role writing), every pair over {1,MAX-1,MAX,MAX+1}, 0 paired with 1 / MAX on either side and 2*MAX+1 paired with 1 / MAX on either side (initiator writing); thorough = every single write (either role) and every pair (initiator writing) at bound 2, every pair (responder writing) and every sequence of 3 (initiator writing) at bound 1; x writer script {flush once at the end; flush after every write; never flush and close() right after the last write; flush after every write but the last then close() without flush}, over two real noise Outputs produced by a real XX handshake; per configuration every execution with <= bound deviations after the handshake (transport reads/writes cut to 1, 2 or 65537 bytes, injected Pending on read/write/flush, non-round-robin task choice); bound 1 quick; thorough as stated, with a wall-clock cap of 480 s per worker after which remaining configurations drop to bound 1 (reported as a cap). Tamper (E3): a recorded stream of 3 frames (plaintexts of 5, 1, 16 bytes; thorough adds a 4-frame stream with a 300-byte plaintext, initiator writing): every byte x 8 one-bit flips (quick) / 255 values (thorough), every truncation, in both directions, followed by EOF. Non-trivial = delivery executions with >=1 deviation; every tampered stream.",
    explanation: "Delivery: E1 stateless deviation-bounded DFS over the real Output futures; oracle: the reader obtains exactly the concatenation of the writes before a clean EOF (also when the writer only calls close()), the reply arrives intact. Tamper: fault enumeration on the recorded ciphertext; oracle: the bytes read are a prefix of the plaintext and, for byte corruption, the read sequence ends in an error (never altered bytes, never a clean EOF).",
    assumptions: &["poll-granularity interleaving on one thread", "chunking deviations start after both handshakes completed (handshake chunking belongs to C16/C14 style checks)", "snow / ring AEAD trusted; manipulations are enumerated, not computational"],
};

const M: usize = MAX_FRAME_LEN;
const SIZES: [usize; 7] = [0, 1, 2, M - 1, M, M + 1, 2 * M + 1];
const REPLY: &[u8] = b"ok!";
const ALTS: &[usize] = &[1, 2, 65537];

fn pattern(n: usize, tag: u8) -> Vec<u8> {
    (0..n).map(|i| ((i % 251) as u8).wrapping_add(tag)).collect()
}

#[derive(Default)]
struct Gate {
    open: Cell<bool>,
    arrived: Cell<u32>,
    wakers: RefCell<Vec<Waker>>,
}
impl Gate {
    fn release(&self) {
        self.open.set(true);
        for w in self.wakers.borrow_mut().drain(..) {
            w.wake();
        }
    }
    async fn wait(&self) {
        futures::future::poll_fn(|cx| {
            if self.open.get() {
                Poll::Ready(())
            } else {
                self.wakers.borrow_mut().push(cx.waker().clone());
                Poll::Pending
            }
        })
        .await
    }
}

#[derive(Default, Clone, Debug)]
struct Side {
    peer: Option<PeerId>,
    err: Option<String>,
    got: Vec<u8>,
    end: Option<String>,
    done: bool,
}

fn noise_cfg(i: u8) -> libp2p_noise::Config {
    libp2p_noise::Config::new(&keys::ed(i)).expect("noise config")
}

// ---------------------------------------------------------------------------------------------
// delivery

/// `flush` = writer script: 0 flush once after the last write, close after the reply; 1 flush after
/// every write; 2 never flush, close() right after the last write; 3 flush after every write but the
/// last, then close() without flush
fn deliver_one(sizes: &[usize], flush: u8, init_writes: bool, sched: bool) -> Result<(), String> {
    let (a, b) = pipe::pair(PipeCfg::default());
    let armed = Arc::new(AtomicBool::new(false));
    let a = Chunky { inner: a, armed: armed.clone(), alts: ALTS };
    let b = Chunky { inner: b, armed: armed.clone(), alts: ALTS };
    let gate = Rc::new(Gate::default());
    let data = pattern(sizes.iter().sum(), 0x31);
    let si = Rc::new(RefCell::new(Side::default()));
    let sr = Rc::new(RefCell::new(Side::default()));
    let mut tasks = Tasks::new(sched);
    let mut ends = vec![Some(a), Some(b)];
    for init in [true, false] {
        let (side, gate, armed, data, sizes) = (if init { si.clone() } else { sr.clone() }, gate.clone(), armed.clone(), data.clone(), sizes.to_vec());
        let writes = init == init_writes;
        let fut_io = ends[if init { 0 } else { 1 }].take().unwrap();
        tasks.spawn_local(if init { "I" } else { "R" }, async move {
            let r: Result<(), String> = async {
                let hs = if init { noise_cfg(1).upgrade_outbound(fut_io, "/noise").await } else { noise_cfg(2).upgrade_inbound(fut_io, "/noise").await };
                let (peer, mut out) = hs.map_err(|e| format!("handshake: {e}"))?;
                side.borrow_mut().peer = Some(peer);
                gate.arrived.set(gate.arrived.get() + 1);
                if gate.arrived.get() == 2 {
                    armed.store(true, SeqCst);
                    gate.release();
                }
                gate.wait().await;
                if writes {
                    let mut off = 0;
                    let last = sizes.len().saturating_sub(1);
                    for (wi, sz) in sizes.into_iter().enumerate() {
                        let mut rest = &data[off..off + sz];
                        off += sz;
                        if rest.is_empty() {
                            let n = out.write(rest).await.map_err(|e| format!("write: {e}"))?;
                            if n != 0 {
                                return Err(format!("write of 0 bytes returned {n}"));
                            }
                        }
                        while !rest.is_empty() {
                            let n = out.write(rest).await.map_err(|e| format!("write: {e}"))?;
                            if n == 0 || n > rest.len() {
                                return Err(format!("write of {} bytes returned {n}", rest.len()));
                            }
                            rest = &rest[n..];
                        }
                        if flush == 1 || (flush == 3 && wi != last) {
                            out.flush().await.map_err(|e| format!("flush: {e}"))?;
                        }
                    }
                    if flush >= 2 {
                        // close() alone must deliver whatever is still buffered
                        out.close().await.map_err(|e| format!("close: {e}"))?;
                    } else {
                        out.flush().await.map_err(|e| format!("flush: {e}"))?;
                    }
                    let mut got = Vec::new();
                    let mut buf = [0u8; 3];
                    out.read_exact(&mut buf).await.map_err(|e| format!("read reply: {e}"))?;
                    got.extend_from_slice(&buf);
                    if flush < 2 {
                        out.close().await.map_err(|e| format!("close: {e}"))?;
                    }
                    side.borrow_mut().got = got;
                } else {
                    let mut got = vec![0u8; data.len()];
                    out.read_exact(&mut got).await.map_err(|e| format!("read: {e}"))?;
                    side.borrow_mut().got = got;
                    out.write_all(REPLY).await.map_err(|e| format!("write reply: {e}"))?;
                    out.flush().await.map_err(|e| format!("flush reply: {e}"))?;
                    // after the writer closed, the stream must end cleanly with nothing extra
                    let mut extra = Vec::new();
                    out.read_to_end(&mut extra).await.map_err(|e| format!("read to end: {e}"))?;
                    if !extra.is_empty() {
                        return Err(format!("{} extra bytes after the written data", extra.len()));
                    }
                    out.close().await.map_err(|e| format!("close: {e}"))?;
                }
                Ok(())
            }
            .await;
            let mut g = side.borrow_mut();
            g.err = r.err();
            g.done = true;
        });
    }
    let end = tasks.run(2_000_000);
    let (w, r) = if init_writes { (si.borrow().clone(), sr.borrow().clone()) } else { (sr.borrow().clone(), si.borrow().clone()) };
    choice::observe(&format!("{:?}{:?}{}{}{}{}", w.err, r.err, w.got.len(), r.got.len(), w.done, r.done));
    if end == RunEnd::Horizon {
        return Err("noise-horizon :: still runnable after 2000000 polls (livelock?)".into());
    }
    if !w.done || !r.done {
        return Err(format!("noise-stuck :: quiescent but unfinished: writer done={} reader done={} (reader has {} of {} bytes)", w.done, r.done, r.got.len(), data.len()));
    }
    if let Some(e) = r.err.clone().or(w.err.clone()) {
        return Err(format!("noise-io-error :: {e}"));
    }
    if r.got != data {
        let first = r.got.iter().zip(data.iter()).position(|(x, y)| x != y);
        return Err(format!("noise-bytes-differ :: wrote {} bytes, read {} (first difference at {:?})", data.len(), r.got.len(), first));
    }
    if w.got != REPLY {
        return Err(format!("noise-reply-differs :: reply read as {}", hex(&w.got)));
    }
    Ok(())
}

fn deliver_body(cfg: &Value) -> impl FnMut(&mut Chooser) -> Result<(), String> {
    let sizes: Vec<usize> = serde_json::from_value(cfg["sizes"].clone()).unwrap_or_default();
    let fe = cfg["flush"].as_u64().map(|v| v as u8).unwrap_or(if cfg["flush_each"].as_bool().unwrap_or(false) { 1 } else { 0 });
    let iw = cfg["init_writes"].as_bool().unwrap_or(true);
    move |ch: &mut Chooser| {
        let sizes = sizes.clone();
        choice::scoped(ch, move || mc::catch(|| deliver_one(&sizes, fe, iw, true)).unwrap_or_else(|p| Err(format!("noise-panic :: {p} at {:?}", mc::shim::last_panic_loc()))))
    }
}

// ---------------------------------------------------------------------------------------------
// tamper

fn tamper_msgs(big: bool) -> Vec<Vec<u8>> {
    let mut v = vec![pattern(5, 0xa0), pattern(1, 0xb0), pattern(16, 0xc0)];
    if big {
        v.push(pattern(300, 0xd0));
    }
    v
}

/// run an honest handshake through a link, let the writer send `msgs` (one frame each), return
/// the recorded ciphertext stream; then feed `edit(stream)` + EOF to the reader and report
/// (stream length, bytes read, how the read sequence ended)
fn tamper_run(init_writes: bool, big: bool, edit: &Edit) -> Result<(usize, Vec<u8>, String), String> {
    let (link, a_end, b_end) = Link::new();
    let go = Rc::new(Gate::default());
    let si = Rc::new(RefCell::new(Side::default()));
    let sr = Rc::new(RefCell::new(Side::default()));
    let msgs = tamper_msgs(big);
    let mut tasks = Tasks::new(false);
    let mut ends = vec![Some(a_end), Some(b_end)];
    for init in [true, false] {
        let (side, go, msgs) = (if init { si.clone() } else { sr.clone() }, go.clone(), msgs.clone());
        let io = ends[if init { 0 } else { 1 }].take().unwrap();
        let writes = init == init_writes;
        tasks.spawn_local(if init { "I" } else { "R" }, async move {
            let hs = if init { noise_cfg(1).upgrade_outbound(io, "/noise").await } else { noise_cfg(2).upgrade_inbound(io, "/noise").await };
            let mut out = match hs {
                Ok((p, out)) => {
                    side.borrow_mut().peer = Some(p);
                    out
                }
                Err(e) => {
                    side.borrow_mut().err = Some(format!("handshake: {e}"));
                    side.borrow_mut().done = true;
                    return;
                }
            };
            if writes {
                go.wait().await;
                for m in &msgs {
                    if let Err(e) = async {
                        out.write_all(m).await?;
                        out.flush().await
                    }
                    .await
                    {
                        side.borrow_mut().err = Some(format!("write: {e}"));
                    }
                }
                let _ = out.close().await;
            } else {
                let mut buf = [0u8; 64];
                loop {
                    match out.read(&mut buf).await {
                        Ok(0) => {
                            side.borrow_mut().end = Some("eof".into());
                            break;
                        }
                        Ok(n) => side.borrow_mut().got.extend_from_slice(&buf[..n]),
                        Err(e) => {
                            side.borrow_mut().end = Some(format!("err:{:?}", e.kind()));
                            break;
                        }
                    }
                }
            }
            side.borrow_mut().done = true;
        });
    }
    // honest handshake: shuttle everything
    for _ in 0..16 {
        tasks.run(100_000);
        let (x, y) = (link.from_a(), link.from_b());
        if x.is_empty() && y.is_empty() {
            break;
        }
        link.to_b(&x);
        link.to_a(&y);
    }
    if si.borrow().peer != Some(keys::ed(2).public().to_peer_id()) || sr.borrow().peer != Some(keys::ed(1).public().to_peer_id()) {
        return Err(format!("noise-honest-handshake-fails :: initiator {:?}/{:?} responder {:?}/{:?}", si.borrow().peer, si.borrow().err, sr.borrow().peer, sr.borrow().err));
    }
    go.release();
    tasks.run(100_000);
    let stream = if init_writes { link.from_a() } else { link.from_b() };
    let mut rest = stream.clone();
    let frames = take_frames(&mut rest);
    if frames.len() != msgs.len() || !rest.is_empty() {
        return Err(format!("noise-unexpected-framing :: {} writes+flushes produced {} frames (+{} stray bytes)", msgs.len(), frames.len(), rest.len()));
    }
    for (f, m) in frames.iter().zip(&msgs) {
        if f.len() != 2 + m.len() + 16 {
            return Err(format!("noise-unexpected-framing :: frame of {} bytes for a {}-byte write", f.len(), m.len()));
        }
    }
    let mutated = edit.apply(&stream);
    if init_writes {
        link.to_b(&mutated);
        link.eof_to_b();
    } else {
        link.to_a(&mutated);
        link.eof_to_a();
    }
    tasks.run(100_000);
    let rd = if init_writes { sr.borrow().clone() } else { si.borrow().clone() };
    let Some(end) = rd.end else { return Err("noise-reader-stuck :: reader neither failed nor reached EOF after the stream ended".into()) };
    Ok((stream.len(), rd.got, end))
}

fn tamper_case(c: &Value) -> Result<&'static str, String> {
    let iw = c["init_writes"].as_bool().unwrap_or(true);
    let big = c["big"].as_bool().unwrap_or(false);
    let edit = Edit::from_json(&c["edit"]);
    let (_, got, end) = mc::catch(|| tamper_run(iw, big, &edit)).map_err(|p| format!("noise-panic :: {p} at {:?}", mc::shim::last_panic_loc()))??;
    let plain: Vec<u8> = tamper_msgs(big).concat();
    if !plain.starts_with(&got) {
        return Err(format!("noise-altered-plaintext :: {edit:?}: reader obtained {} which is not a prefix of the written {}", hex(&got), hex(&plain[..plain.len().min(64)])));
    }
    match edit {
        Edit::None => {
            if got != plain || end != "eof" {
                return Err(format!("noise-honest-stream-not-delivered :: read {} of {} bytes, end {end}", got.len(), plain.len()));
            }
            Ok("intact")
        }
        Edit::Trunc(_) | Edit::Append(_) => Ok(if end == "eof" { "cut-clean-eof" } else { "cut-error" }),
        _ => {
            if end == "eof" {
                return Err(format!("noise-corruption-clean-eof :: {edit:?}: reader saw a clean end of stream after {} of {} bytes", got.len(), plain.len()));
            }
            Ok("corruption-error")
        }
    }
}

// ---------------------------------------------------------------------------------------------

fn deliver_cfgs(ctx: &Ctx) -> Vec<Value> {
    let mut cfgs = Vec::new();
    let quick = ctx.quick();
    let mut push = |idx: &[usize], iws: &[bool], bound: u32| {
        // writer scripts (see deliver_one); for a single write 1 == 0 and 3 == 2
        let modes: &[u8] = if idx.len() == 1 {
            &[0, 2]
        } else if quick {
            &[1, 2, 3] // script 0 with several writes differs from 2 only in the last step, which the single writes cover
        } else {
            &[0, 1, 2, 3]
        };
        for &fl in modes {
            for &iw in iws {
                cfgs.push(json!({"sizes": idx.iter().map(|&i| SIZES[i]).collect::<Vec<_>>(), "flush": fl, "init_writes": iw, "bound": bound}));
            }
        }
    };
    if ctx.quick() {
        // all single writes (both roles); all pairs over the sizes up to MAX+1; the two-frame
        // write 2*MAX+1 paired with 1 and MAX on either side (initiator writes)
        mc::enumerate::sequences(SIZES.len(), 1, |idx| push(idx, &[true, false], 1));
        const Q: [usize; 4] = [1, 3, 4, 5]; // 1, MAX-1, MAX, MAX+1
        mc::enumerate::sequences(Q.len(), 2, |idx| push(&[Q[idx[0]], Q[idx[1]]], &[true], 1));
        for pair in [[0usize, 1], [1, 0], [0, 4], [4, 0]] {
            push(&pair, &[true], 1);
        }
        for x in [1usize, 4] {
            push(&[x, 6], &[true], 1);
            push(&[6, x], &[true], 1);
        }
    } else {
        mc::enumerate::sequences(SIZES.len(), 1, |idx| push(idx, &[true, false], 2));
        mc::enumerate::sequences(SIZES.len(), 2, |idx| push(idx, &[true], 2));
        mc::enumerate::sequences(SIZES.len(), 2, |idx| push(idx, &[false], 1));
        mc::enumerate::sequences(SIZES.len(), 3, |idx| push(idx, &[true], 1));
    }
    // order by cost so that striping over the workers balances
    cfgs.sort_by_key(|c| {
        let total: u64 = c["sizes"].as_array().unwrap().iter().map(|v| v.as_u64().unwrap()).sum();
        (std::cmp::Reverse(c["bound"].as_u64().unwrap()), std::cmp::Reverse(total), c.to_string())
    });
    cfgs
}

pub fn run(ctx: &Ctx) -> Outcome {
    if let Some(case) = &ctx.replay {
        let mut out = Outcome::default();
        out.evaluations = 1;
        let r = if case["kind"].as_str() == Some("deliver") {
            let choices: Vec<u32> = serde_json::from_value(case["choices"].clone()).unwrap_or_default();
            choice::replay(&choices, deliver_body(&case["cfg"]))
        } else {
            tamper_case(case).map(|_| ())
        };
        if let Err(m) = r {
            out.violation(mc::bfs::signature_of(&m), m, case.clone());
        }
        return out;
    }
    let cfgs = deliver_cfgs(ctx);
    let mut out = mc::workers(ctx, 16, |ctx| {
        let mut out = Outcome::default();
        let budget = mc::Budget::secs(480.0);
        // ---- delivery (E1); configurations ordered by cost so that striping balances
        for (i, cfg) in cfgs.iter().enumerate() {
            if !ctx.mine(i as u64) {
                continue;
            }
            let mut b = cfg["bound"].as_u64().unwrap_or(1) as u32;
            if b > 1 && budget.exceeded() {
                // wall-clock cap: the remaining configurations are explored at bound 1 only
                b = 1;
                out.caps.push("wall-clock budget (480 s per worker) reached: some configurations explored at deviation bound 1 instead of 2".into());
                out.caps.dedup();
                out.not_exhaustive = true;
                out.count("deliver_configs_capped_to_bound_1", 1);
            }
            let (st, viol) = choice::explore(b, 0, deliver_body(cfg));
            out.add_explore(&st);
            out.count("deliver_configs", 1);
            for k in 1..st.executions.min(50_000) {
                out.nontrivial_h(mc::report::hash_str(&cfg.to_string()) ^ k.wrapping_mul(0x9e3779b97f4a7c15));
            }
            if i % 41 == 0 {
                out.sample(json!({"kind":"deliver","cfg":cfg,"executions":st.executions}));
            }
            if let Some((choices, m)) = viol {
                if m.starts_with("NONDETERMINISM") {
                    out.machinery(format!("{m} cfg={cfg}"));
                } else {
                    out.violation(mc::bfs::signature_of(&m), m, json!({"kind":"deliver","cfg":cfg,"choices":choices}));
                }
            }
        }
        // ---- tamper (E3)
        let mut n = 0u64;
        for iw in [true, false] {
            for big in if ctx.quick() || !iw { vec![false] } else { vec![false, true] } {
                let len: usize = tamper_msgs(big).iter().map(|m| 2 + m.len() + 16).sum();
                let mut edits = vec![Edit::None];
                let masks = if ctx.quick() { masks_bits() } else { masks_all() };
                for p in 0..len {
                    for &m in &masks {
                        edits.push(Edit::Xor(p, m));
                    }
                }
                for l in 0..len {
                    edits.push(Edit::Trunc(l));
                }
                edits.push(Edit::Append(0));
                for e in edits {
                    n += 1;
                    if !ctx.mine(n) {
                        continue;
                    }
                    let case = json!({"kind":"tamper","init_writes":iw,"big":big,"edit":e.to_json()});
                    out.evaluations += 1;
                    if !e.is_none() {
                        out.nontrivial(&case.to_string());
                    }
                    match tamper_case(&case) {
                        Ok(class) => out.count(&format!("tamper_{class}"), 1),
                        Err(m) => out.violation(mc::bfs::signature_of(&m), m, case.clone()),
                    }
                    if n % 1499 == 2 {
                        out.sample(case);
                    }
                }
            }
        }
        out
    });
    if out.violations.is_empty() {
        for (k, min) in [("tamper_intact", 2u64), ("tamper_corruption-error", 100), ("deliver_configs", 1), ("executions", 100)] {
            if out.get(k) < min {
                out.machinery(format!("vacuity: counter {k} = {} (< {min})", out.get(k)));
            }
        }
    }
    out
}
