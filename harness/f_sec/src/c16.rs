//! C16 — the noise handshake authenticates exactly the remote identity (E3 fault enumeration).
//!  mitm:     honest A (initiator) <-> B (responder) through a man-in-the-middle that sees whole
//!            length-prefixed handshake messages: byte flips / truncations / extension, drop,
//!            duplicate, reflect, replay of the same message from a previous session of the same
//!            two configurations; double bit flips in thorough;
//!  hostile:  an endpoint E built directly on `snow` (same parameters, same prologue) that completes
//!            the key exchange itself and announces spliced identity fields (its own key, a victim
//!            V's key, V's recorded signature, empty / garbage / domain-less signatures);
//!  prologue: equal and differing prologues.
//!
//! Readings settled on:
//!  * the oracle never demands that a tampered handshake fails, only that a side which reports
//!    `Ok(peer)` reports the identity of the party whose static DH key it completed the exchange
//!    with (A, B or E) — and, towards the hostile endpoint, that this identity really signed that
//!    static key (so an unsigned / wrongly signed announcement must not be accepted at all);
//!  * "swap with neighbour" is not realisable by an on-path adversary in a strictly alternating
//!    three-message exchange (each message depends on the previous one); it is represented by
//!    `reflect` (a message returned to its sender in place of the expected one) and `replay`.
//!
//! Each worker (and each replay) runs on one fresh thread with a *constant* entropy seed
//! (`mc::isolated`) and creates all noise configurations first, in a fixed order: static DH keys,
//! their signatures and therefore all message lengths are the same in every run, worker, replay
//! and for every VERIF_SEED. Ephemeral keys differ from session to session; observations are
//! verdict classes only. (A fresh thread per case was measured at ~10 ms under load.)

use crate::edit::{masks_bits, Edit};
use crate::keys;
use crate::noise_kit::{frame, payload, snow_session, static_pub, take_frames, to_sign, Link};
use kit::pipe::{self, PipeCfg};
use kit::tasks::Tasks;
use libp2p_core::upgrade::{InboundConnectionUpgrade, OutboundConnectionUpgrade};
use libp2p_identity::PeerId;
use mc::{json, Ctx, Meta, Outcome, Value};
use std::cell::RefCell;
use std::rc::Rc;

pub const META: Meta = Meta {
    level: "fault_enumeration",
    rule: "mitm: honest XX handshake A<->B (identity key types ed25519/ed25519 with every byte x 8 one-bit flips; secp256k1/ecdsa, ecdsa/rsa, rsa/secp256k1 with masks {01,80} quick / 8 bits thorough) for each of the 3 messages: every single-byte flip, every truncation, 1-byte extension, drop, duplicate, reflect, replay from a previous session; thorough: all position pairs xor 01 of each message (ed25519). hostile: snow-built endpoint E (4 key types) against a real responder and a real initiator, announcing identity_key in {E, V (4 key types), empty, garbage} x identity_sig in {E over E-static, V's recorded signature over V-static, empty, garbage, E over E-static without the domain prefix, E over another static key, every 1-bit flip (ed25519) of the valid signature}. replay-only: an honest session (handshake + one transport frame each way) is recorded, then every prefix of the recorded messages of one side (incl. the transport frame) is played back to a fresh responder / initiator built from the same Config, in the same execution without resetting entropy, for 4 key-type pairs. prologue: all ordered pairs over {empty, 01, 01 02, 'x'}; for lengths {1,31,32,33,63,64,65,88,128,255,256,1000}: an equal pair (control) and pairs differing only in the last, first or middle byte or only in length (strict prefix by one byte), in either order. Non-trivial = every case except the untouched honest handshakes.",
    explanation: "Fault enumeration (E3) against the real upgrade_inbound/upgrade_outbound futures. Oracle: a side returning Ok(peer) reports the PeerId of the party it completed the key exchange with (A, B or E), never V or a third id; the hostile endpoint is accepted only with its own identity key and a signature by that key over its static DH key with the domain prefix; different prologues make both sides fail; untouched handshakes succeed with the right ids; no replayed handshake completes; no panic, no hang after EOF.",
    assumptions: &["snow, x25519-dalek, ring trusted; manipulations are enumerated, not computational", "the adversary cannot use a static DH public key whose secret it does not hold (it could not complete the exchange)", "constant entropy seed: static DH keys identical in all cases, runs and replays; ephemeral keys vary"],
};

const ENTROPY: u64 = 0xC16;
const PROLOGUES: [&[u8]; 4] = [&[], &[1], &[1, 2], b"x"];

/// a prologue: an index into PROLOGUES, or {"len": L, "var": v}: the L-byte pattern, unchanged
/// ("base"), with its last / first / middle byte changed, one byte shorter or one byte longer
fn prologue_of(v: &Value) -> Vec<u8> {
    if let Some(i) = v.as_u64() {
        return PROLOGUES[i as usize % 4].to_vec();
    }
    let l = v["len"].as_u64().unwrap_or(0) as usize;
    let mut p: Vec<u8> = (0..l).map(|i| ((i * 7 + 3) % 251) as u8).collect();
    match v["var"].as_str().unwrap_or("base") {
        "last" => {
            if let Some(b) = p.last_mut() {
                *b ^= 0x01
            }
        }
        "first" => {
            if let Some(b) = p.first_mut() {
                *b ^= 0x80
            }
        }
        "mid" => {
            if l > 0 {
                p[l / 2] ^= 0x10
            }
        }
        "short" => {
            p.pop();
        }
        "long" => p.push(0x5a),
        _ => {}
    }
    p
}
const PROLOGUE_LENS: [usize; 12] = [1, 31, 32, 33, 63, 64, 65, 88, 128, 255, 256, 1000];

thread_local! {
    /// all noise configurations (static DH key + signature) of this thread, created in a fixed
    /// order as the very first use of the thread's RNG: identical in every fresh thread that was
    /// started through `mc::isolated(ENTROPY, ..)`
    static CONFIGS: RefCell<Option<Vec<libp2p_noise::Config>>> = const { RefCell::new(None) };
}
const CFG_IDX: [u8; 4] = [1, 2, 4, 5];

fn cfg(kind: usize, i: u8, prologue: &[u8]) -> Result<libp2p_noise::Config, String> {
    CONFIGS.with(|c| {
        let mut c = c.borrow_mut();
        if c.is_none() {
            let mut v = Vec::new();
            for k in 0..4usize {
                for i in CFG_IDX {
                    v.push(libp2p_noise::Config::new(&keys::key(k, i)).map_err(|e| format!("noise-config-fails :: {e}"))?);
                }
            }
            *c = Some(v);
        }
        let slot = CFG_IDX.iter().position(|x| *x == i).ok_or("harness: unknown config index")?;
        Ok(c.as_ref().unwrap()[kind * 4 + slot].clone().with_prologue(prologue.to_vec()))
    })
}

#[derive(Clone, Debug, PartialEq)]
enum Fault {
    None,
    Edit(Edit),
    Drop,
    Dup,
    Reflect,
    Replay,
}
impl Fault {
    fn from_json(v: &Value) -> Fault {
        match v["f"].as_str() {
            Some("edit") => Fault::Edit(Edit::from_json(&v["edit"])),
            Some("drop") => Fault::Drop,
            Some("dup") => Fault::Dup,
            Some("reflect") => Fault::Reflect,
            Some("replay") => Fault::Replay,
            _ => Fault::None,
        }
    }
    fn to_json(&self) -> Value {
        match self {
            Fault::None => json!({"f":"none"}),
            Fault::Edit(e) => json!({"f":"edit","edit":e.to_json()}),
            Fault::Drop => json!({"f":"drop"}),
            Fault::Dup => json!({"f":"dup"}),
            Fault::Reflect => json!({"f":"reflect"}),
            Fault::Replay => json!({"f":"replay"}),
        }
    }
}

type Res = Option<Result<PeerId, String>>;

struct Session {
    a: Res,
    b: Res,
    /// the three handshake messages as sent by their honest senders (prefix included)
    frames: Vec<Vec<u8>>,
}

/// one handshake A(initiator) <-> B(responder) through the link; `fault` hits message `msg`
fn session(ca: libp2p_noise::Config, cb: libp2p_noise::Config, msg: usize, fault: &Fault, prev: Option<&[Vec<u8>]>) -> Result<Session, String> {
    let (link, a_end, b_end) = Link::new();
    let ra: Rc<RefCell<Res>> = Rc::new(RefCell::new(None));
    let rb: Rc<RefCell<Res>> = Rc::new(RefCell::new(None));
    let mut tasks = Tasks::new(false);
    {
        let ra = ra.clone();
        tasks.spawn_local("A", async move {
            let r = ca.upgrade_outbound(a_end, "/noise").await;
            *ra.borrow_mut() = Some(r.map(|(p, _)| p).map_err(|e| e.to_string()));
        });
    }
    {
        let rb = rb.clone();
        tasks.spawn_local("B", async move {
            let r = cb.upgrade_inbound(b_end, "/noise").await;
            *rb.borrow_mut() = Some(r.map(|(p, _)| p).map_err(|e| e.to_string()));
        });
    }
    let (mut buf_ab, mut buf_ba) = (Vec::new(), Vec::new());
    let (mut n_ab, mut n_ba) = (0usize, 0usize);
    let mut frames: Vec<Vec<u8>> = vec![Vec::new(); 3];
    let mut eof_sent = false;
    for _round in 0..32 {
        mc::catch(|| tasks.run(100_000)).map_err(|p| format!("noise-handshake-panic :: {p} at {:?}", mc::shim::last_panic_loc()))?;
        buf_ab.extend(link.from_a());
        buf_ba.extend(link.from_b());
        let mut moved = false;
        for from_a in [true, false] {
            let fs = take_frames(if from_a { &mut buf_ab } else { &mut buf_ba });
            for f in fs {
                moved = true;
                let idx = if from_a {
                    n_ab += 1;
                    2 * (n_ab - 1)
                } else {
                    n_ba += 1;
                    2 * (n_ba - 1) + 1
                };
                if idx < 3 && frames[idx].is_empty() {
                    frames[idx] = f.clone();
                }
                let fwd = |bytes: &[u8]| if from_a { link.to_b(bytes) } else { link.to_a(bytes) };
                let back = |bytes: &[u8]| if from_a { link.to_a(bytes) } else { link.to_b(bytes) };
                if idx != msg {
                    fwd(&f);
                    continue;
                }
                match fault {
                    Fault::None => fwd(&f),
                    Fault::Edit(e) => fwd(&e.apply(&f)),
                    Fault::Drop => {}
                    Fault::Dup => {
                        fwd(&f);
                        fwd(&f);
                    }
                    Fault::Reflect => back(&f),
                    Fault::Replay => fwd(prev.map(|p| p[idx].as_slice()).unwrap_or(&f)),
                }
            }
        }
        if !moved {
            if tasks.all_done() || eof_sent {
                break;
            }
            // nobody can make progress: the adversary ends both streams
            link.eof_to_a();
            link.eof_to_b();
            eof_sent = true;
        }
    }
    let (a, b) = (ra.borrow().clone(), rb.borrow().clone());
    Ok(Session { a, b, frames })
}

fn class(r: &Res) -> &'static str {
    match r {
        None => "hang",
        Some(Ok(_)) => "ok",
        Some(Err(_)) => "err",
    }
}

fn judge(s: &Session, id_a: PeerId, id_b: PeerId, what: &str) -> Result<(), String> {
    if s.a.is_none() || s.b.is_none() {
        return Err(format!("noise-handshake-hangs :: {what}: A {} B {} after both streams ended", class(&s.a), class(&s.b)));
    }
    if let Some(Ok(p)) = &s.a {
        if *p != id_b {
            return Err(format!("noise-initiator-reports-wrong-peer :: {what}: A reports {p}, it exchanged keys with B = {id_b}"));
        }
    }
    if let Some(Ok(p)) = &s.b {
        if *p != id_a {
            return Err(format!("noise-responder-reports-wrong-peer :: {what}: B reports {p}, it exchanged keys with A = {id_a}"));
        }
    }
    Ok(())
}

fn mitm_case(c: &Value) -> Result<String, String> {
    let (ka, kb) = (c["ka"].as_u64().unwrap_or(0) as usize, c["kb"].as_u64().unwrap_or(0) as usize);
    let msg = c["msg"].as_u64().unwrap_or(0) as usize;
    let fault = Fault::from_json(&c["fault"]);
    let (ca, cb) = (cfg(ka, 1, &[])?, cfg(kb, 2, &[])?);
    let (id_a, id_b) = (keys::key(ka, 1).public().to_peer_id(), keys::key(kb, 2).public().to_peer_id());
    let prev = if fault == Fault::Replay {
        let s0 = session(ca.clone(), cb.clone(), 9, &Fault::None, None)?;
        judge(&s0, id_a, id_b, "previous honest session")?;
        if class(&s0.a) != "ok" || class(&s0.b) != "ok" {
            return Err(format!("noise-honest-handshake-fails :: previous session: A {:?} B {:?}", s0.a, s0.b));
        }
        Some(s0.frames)
    } else {
        None
    };
    let s = session(ca, cb, msg, &fault, prev.as_deref())?;
    judge(&s, id_a, id_b, &format!("{fault:?} on message {msg}"))?;
    let effective = match &fault {
        Fault::None => false,
        Fault::Edit(e) => e.apply(&s.frames[msg.min(2)]) != s.frames[msg.min(2)],
        _ => true,
    };
    if !effective && (class(&s.a) != "ok" || class(&s.b) != "ok") {
        return Err(format!("noise-honest-handshake-fails :: {}/{}: A {:?} B {:?}", keys::KINDS[ka], keys::KINDS[kb], s.a, s.b));
    }
    Ok(format!("{}A-{}_B-{}", if effective { "" } else { "untouched_" }, class(&s.a), class(&s.b)))
}

fn prologue_case(c: &Value) -> Result<String, String> {
    let (ka, kb) = (c["ka"].as_u64().unwrap_or(0) as usize, c["kb"].as_u64().unwrap_or(0) as usize);
    let (pa, pb) = (prologue_of(&c["pa"]), prologue_of(&c["pb"]));
    let (pa, pb) = (pa.as_slice(), pb.as_slice());
    let (id_a, id_b) = (keys::key(ka, 1).public().to_peer_id(), keys::key(kb, 2).public().to_peer_id());
    let s = session(cfg(ka, 1, pa)?, cfg(kb, 2, pb)?, 9, &Fault::None, None)?;
    judge(&s, id_a, id_b, "prologue")?;
    if pa == pb {
        if class(&s.a) != "ok" || class(&s.b) != "ok" {
            return Err(format!("noise-equal-prologue-fails :: prologue {pa:?}: A {:?} B {:?}", s.a, s.b));
        }
        Ok("prologue-equal-ok".into())
    } else {
        if class(&s.a) == "ok" || class(&s.b) == "ok" {
            return Err(format!("noise-different-prologue-succeeds :: prologues {pa:?} vs {pb:?}: A {} B {}", class(&s.a), class(&s.b)));
        }
        Ok("prologue-different-fails".into())
    }
}

// ---------------------------------------------------------------------------------------------
// hostile endpoint

const E_STATIC: [u8; 32] = [0x77; 32];
const OTHER_STATIC: [u8; 32] = [0x55; 32];

/// E, as snow initiator, performs an honest handshake with V's real responder and records what V
/// announced: (identity_key, identity_sig) — valid for V's static key, which E does not hold.
fn record_victim_announcement(kv: usize) -> Result<(Vec<u8>, Vec<u8>), String> {
    let (v_end, h_end) = pipe::pair(PipeCfg::default());
    let h = h_end.handle();
    let res: Rc<RefCell<Res>> = Rc::new(RefCell::new(None));
    let mut tasks = Tasks::new(false);
    let vcfg = cfg(kv, 4, &[])?;
    {
        let res = res.clone();
        tasks.spawn_local("V", async move {
            let r = vcfg.upgrade_inbound(v_end, "/noise").await;
            *res.borrow_mut() = Some(r.map(|(p, _)| p).map_err(|e| e.to_string()));
        });
    }
    let mut e = snow_session(true, &[], &E_STATIC, 7).map_err(|e| format!("harness: snow: {e}"))?;
    let mut buf = vec![0u8; 65535];
    let n = e.write_message(&[], &mut buf).map_err(|e| format!("harness: snow write: {e}"))?;
    h.inject(false, &frame(&buf[..n]));
    tasks.run(100_000);
    let mut got = h.take(true);
    let fs = take_frames(&mut got);
    let Some(m2) = fs.first() else { return Err("noise-honest-handshake-fails :: real responder did not answer a snow initiator".into()) };
    let mut out = vec![0u8; 65535];
    let n = e.read_message(&m2[2..], &mut out).map_err(|e| format!("noise-honest-handshake-fails :: snow cannot read the responder's message: {e}"))?;
    let fields = kit::pb::parse(&out[..n]).ok_or("harness: cannot parse payload")?;
    let mut key = Vec::new();
    let mut sig = Vec::new();
    for f in fields {
        match f {
            kit::pb::Field::Bytes(1, b) => key = b,
            kit::pb::Field::Bytes(2, b) => sig = b,
            _ => {}
        }
    }
    drop(h_end);
    Ok((key, sig))
}

fn hostile_case(c: &Value) -> Result<String, String> {
    let (ke, kv) = (c["ke"].as_u64().unwrap_or(0) as usize, c["kv"].as_u64().unwrap_or(0) as usize);
    let victim_is_responder = c["victim"].as_str() != Some("initiator");
    let e_id = keys::key(ke, 3);
    let e_pub = static_pub(&E_STATIC);
    let (v_key, v_sig) = record_victim_announcement(kv)?;
    if v_key != keys::key(kv, 4).public().encode_protobuf() || v_sig.is_empty() {
        return Err("noise-honest-handshake-fails :: recorded announcement of V is not V's key".into());
    }
    let id_bytes: Vec<u8> = match c["id"].as_str().unwrap_or("E") {
        "E" => e_id.public().encode_protobuf(),
        "V" => v_key.clone(),
        "empty" => vec![],
        _ => vec![0x08, 0x01, 0x12, 0x03, 1, 2, 3],
    };
    let sign = |m: &[u8]| e_id.sign(m).map_err(|e| format!("harness: sign: {e}"));
    let valid_sig = sign(&to_sign(&e_pub))?;
    let sig_name = c["sig"].as_str().unwrap_or("E_over_E");
    let sig_bytes: Vec<u8> = match sig_name {
        "E_over_E" => valid_sig.clone(),
        "V_recorded" => v_sig.clone(),
        "empty" => vec![],
        "garbage" => vec![0xaa; 64],
        "E_no_domain" => sign(&e_pub)?,
        "E_over_other" => sign(&to_sign(&static_pub(&OTHER_STATIC)))?,
        "E_over_V_static_unknown" => sign(&to_sign(&[0u8; 32]))?,
        "E_over_E_edit" => Edit::from_json(&c["edit"]).apply(&valid_sig),
        _ => valid_sig.clone(),
    };
    let legit = c["id"].as_str().unwrap_or("E") == "E" && sig_bytes == valid_sig;
    let hostile_payload = payload(&id_bytes, &sig_bytes);
    // the victim: a real libp2p-noise endpoint with its own identity
    let vic_cfg = cfg(kv, 5, &[])?;
    let (v_end, h_end) = pipe::pair(PipeCfg::default());
    let h = h_end.handle();
    let res: Rc<RefCell<Res>> = Rc::new(RefCell::new(None));
    let mut tasks = Tasks::new(false);
    {
        let res = res.clone();
        tasks.spawn_local("victim", async move {
            let r = if victim_is_responder { vic_cfg.upgrade_inbound(v_end, "/noise").await } else { vic_cfg.upgrade_outbound(v_end, "/noise").await };
            *res.borrow_mut() = Some(r.map(|(p, _)| p).map_err(|e| e.to_string()));
        });
    }
    let mut e = snow_session(victim_is_responder, &[], &E_STATIC, 11).map_err(|e| format!("harness: snow: {e}"))?;
    let mut buf = vec![0u8; 65535];
    let mut out = vec![0u8; 65535];
    let run = |tasks: &mut Tasks| mc::catch(|| tasks.run(100_000)).map_err(|p| format!("noise-handshake-panic :: {p} at {:?}", mc::shim::last_panic_loc()));
    let next_frame = |h: &kit::pipe::Handle| -> Option<Vec<u8>> {
        let mut got = h.take(true);
        take_frames(&mut got).into_iter().next()
    };
    if victim_is_responder {
        let n = e.write_message(&[], &mut buf).map_err(|e| format!("harness: snow write 1: {e}"))?;
        h.inject(false, &frame(&buf[..n]));
        run(&mut tasks)?;
        let m2 = next_frame(&h).ok_or("noise-honest-handshake-fails :: responder sent no second message")?;
        e.read_message(&m2[2..], &mut out).map_err(|e| format!("noise-honest-handshake-fails :: snow cannot read message 2: {e}"))?;
        let n = e.write_message(&hostile_payload, &mut buf).map_err(|e| format!("harness: snow write 3: {e}"))?;
        h.inject(false, &frame(&buf[..n]));
        run(&mut tasks)?;
    } else {
        run(&mut tasks)?;
        let m1 = next_frame(&h).ok_or("noise-honest-handshake-fails :: initiator sent no first message")?;
        e.read_message(&m1[2..], &mut out).map_err(|e| format!("noise-honest-handshake-fails :: snow cannot read message 1: {e}"))?;
        let n = e.write_message(&hostile_payload, &mut buf).map_err(|e| format!("harness: snow write 2: {e}"))?;
        h.inject(false, &frame(&buf[..n]));
        run(&mut tasks)?;
        // message 3 of the victim, if it got that far, must be readable by E (same transcript)
        if let Some(m3) = next_frame(&h) {
            if res.borrow().as_ref().map(|r| r.is_ok()).unwrap_or(false) && e.read_message(&m3[2..], &mut out).is_err() {
                return Err("noise-honest-handshake-fails :: snow cannot read the initiator's third message".into());
            }
        }
    }
    if res.borrow().is_none() {
        h.close(false);
        run(&mut tasks)?;
    }
    let r = res.borrow().clone();
    drop(h_end);
    let e_peer = e_id.public().to_peer_id();
    let v_peer = keys::key(kv, 4).public().to_peer_id();
    let what = format!("E={} V={} victim={} id={} sig={}", keys::KINDS[ke], keys::KINDS[kv], if victim_is_responder { "responder" } else { "initiator" }, c["id"].as_str().unwrap_or("E"), sig_name);
    match r {
        None => Err(format!("noise-handshake-hangs :: {what}")),
        Some(Ok(p)) if p == v_peer => Err(format!("noise-impersonation :: {what}: the victim reports V = {p} although it exchanged keys with E")),
        Some(Ok(p)) if p != e_peer => Err(format!("noise-reports-third-identity :: {what}: reported {p}")),
        Some(Ok(_)) if !legit => Err(format!("noise-accepts-unproven-identity :: {what}: accepted although the announced signature is not E's signature over E's static key with the domain prefix")),
        Some(Ok(_)) => Ok("hostile-legit-accepted".into()),
        Some(Err(e)) if legit => Err(format!("noise-rejects-legit-snow-endpoint :: {what}: {e}")),
        Some(Err(_)) => Ok("hostile-rejected".into()),
    }
}

// ---------------------------------------------------------------------------------------------

// ---------------------------------------------------------------------------------------------
// adversary-only replay: a recorded honest session is played back to a fresh endpoint created from
// the same Config (same static DH key, as transports do), with nobody else on the wire. Recording
// and replay happen in the SAME execution and the entropy stream is not reset in between, so the
// code under test draws its ephemeral keys for the second handshake from wherever it normally does.

struct Recorded {
    /// msg1, msg3 and one transport frame, as sent by the initiator
    from_init: Vec<Vec<u8>>,
    /// msg2 and one transport frame, as sent by the responder
    from_resp: Vec<Vec<u8>>,
}

fn record_session(ca: libp2p_noise::Config, cb: libp2p_noise::Config) -> Result<Recorded, String> {
    use futures::{AsyncReadExt, AsyncWriteExt};
    let (link, a_end, b_end) = Link::new();
    let ok: Rc<RefCell<Vec<String>>> = Rc::new(RefCell::new(Vec::new()));
    let mut tasks = Tasks::new(false);
    for (init, io, c) in [(true, a_end, ca), (false, b_end, cb)] {
        let ok = ok.clone();
        tasks.spawn_local(if init { "A" } else { "B" }, async move {
            let r = if init { c.upgrade_outbound(io, "/noise").await } else { c.upgrade_inbound(io, "/noise").await };
            let Ok((_, mut out)) = r else { return };
            let msg: &[u8] = if init { b"secret-from-initiator" } else { b"secret-from-responder" };
            if out.write_all(msg).await.is_err() || out.flush().await.is_err() {
                return;
            }
            let mut buf = [0u8; 21];
            if out.read_exact(&mut buf).await.is_ok() {
                ok.borrow_mut().push(String::from_utf8_lossy(&buf).into_owned());
            }
        });
    }
    let (mut fa, mut fb) = (Vec::new(), Vec::new());
    let (mut ba, mut bb) = (Vec::new(), Vec::new());
    for _ in 0..16 {
        tasks.run(100_000);
        let (x, y) = (link.from_a(), link.from_b());
        if x.is_empty() && y.is_empty() {
            break;
        }
        link.to_b(&x);
        link.to_a(&y);
        ba.extend(x);
        bb.extend(y);
        fa.extend(take_frames(&mut ba));
        fb.extend(take_frames(&mut bb));
    }
    if ok.borrow().len() != 2 || fa.len() != 3 || fb.len() != 2 {
        return Err(format!("noise-honest-handshake-fails :: recording session: {} sides exchanged data, {} + {} frames", ok.borrow().len(), fa.len(), fb.len()));
    }
    Ok(Recorded { from_init: fa, from_resp: fb })
}

fn replay_only_case(c: &Value) -> Result<String, String> {
    use futures::AsyncReadExt;
    let (ka, kb) = (c["ka"].as_u64().unwrap_or(0) as usize, c["kb"].as_u64().unwrap_or(0) as usize);
    let victim_is_responder = c["victim"].as_str() != Some("initiator");
    let n = c["n"].as_u64().unwrap_or(1) as usize;
    let (ca, cb) = (cfg(ka, 1, &[])?, cfg(kb, 2, &[])?);
    let rec = record_session(ca.clone(), cb.clone())?;
    let script: Vec<Vec<u8>> = if victim_is_responder { rec.from_init } else { rec.from_resp };
    let script = &script[..n.min(script.len())];
    let (v_end, h_end) = pipe::pair(PipeCfg::default());
    let h = h_end.handle();
    let res: Rc<RefCell<Res>> = Rc::new(RefCell::new(None));
    let read: Rc<RefCell<Option<Result<Vec<u8>, String>>>> = Rc::new(RefCell::new(None));
    let mut tasks = Tasks::new(false);
    {
        let (res, read) = (res.clone(), read.clone());
        let vc = if victim_is_responder { cb } else { ca };
        tasks.spawn_local("victim", async move {
            let r = if victim_is_responder { vc.upgrade_inbound(v_end, "/noise").await } else { vc.upgrade_outbound(v_end, "/noise").await };
            match r {
                Ok((p, mut out)) => {
                    *res.borrow_mut() = Some(Ok(p));
                    let mut buf = [0u8; 64];
                    let r = out.read(&mut buf).await;
                    *read.borrow_mut() = Some(r.map(|n| buf[..n].to_vec()).map_err(|e| e.to_string()));
                }
                Err(e) => *res.borrow_mut() = Some(Err(e.to_string())),
            }
        });
    }
    // the adversary plays the recorded messages one after the other, then ends the stream
    for m in script {
        mc::catch(|| tasks.run(100_000)).map_err(|p| format!("noise-handshake-panic :: {p} at {:?}", mc::shim::last_panic_loc()))?;
        h.inject(false, m);
    }
    mc::catch(|| tasks.run(100_000)).map_err(|p| format!("noise-handshake-panic :: {p} at {:?}", mc::shim::last_panic_loc()))?;
    h.close(false);
    mc::catch(|| tasks.run(100_000)).map_err(|p| format!("noise-handshake-panic :: {p} at {:?}", mc::shim::last_panic_loc()))?;
    let what = format!("{}/{} victim={} after {} replayed message(s)", keys::KINDS[ka], keys::KINDS[kb], if victim_is_responder { "responder" } else { "initiator" }, script.len());
    let r = res.borrow().clone();
    drop(h_end);
    match r {
        None => Err(format!("noise-handshake-hangs :: replay: {what}")),
        Some(Ok(p)) => {
            let delivered = matches!(&*read.borrow(), Some(Ok(b)) if !b.is_empty());
            Err(format!("noise-replayed-handshake-completes :: {what}: the victim reports {p} although only recorded bytes of an earlier session were played back{}", if delivered { " and delivered the replayed transport frame to the application" } else { "" }))
        }
        Some(Err(_)) => Ok("replay-rejected".into()),
    }
}

fn run_case_inner(c: &Value) -> Result<String, String> {
    match c["kind"].as_str() {
        Some("mitm") => mitm_case(c),
        Some("prologue") => prologue_case(c),
        Some("hostile") => hostile_case(c),
        Some("replayonly") => replay_only_case(c),
        _ => Err("bad replay case".into()),
    }
}

/// a single case on a fresh thread (replay)
fn run_case(c: &Value) -> Result<String, String> {
    let c2 = c.clone();
    match mc::isolated(ENTROPY, move || run_case_inner(&c2)) {
        Ok(r) => r,
        Err(p) => Err(format!("noise-panic :: {p}")),
    }
}

/// lengths of the three honest messages for a key-type pair (fixed configurations => constant)
fn honest_lens(ka: usize, kb: usize) -> Result<Vec<usize>, String> {
    let s = session(cfg(ka, 1, &[])?, cfg(kb, 2, &[])?, 9, &Fault::None, None)?;
    Ok(s.frames.iter().map(|f| f.len()).collect())
}

pub fn run(ctx: &Ctx) -> Outcome {
    if let Some(case) = &ctx.replay {
        let mut out = Outcome::default();
        out.evaluations = 1;
        if let Err(m) = run_case(case) {
            out.violation(mc::bfs::signature_of(&m), m, case.clone());
        }
        return out;
    }
    let mut out = mc::workers(ctx, 16, |ctx| {
        let ctx = ctx.clone();
        let r = mc::isolated(ENTROPY, move || {
        let ctx = &ctx;
        let mut out = Outcome::default();
        let mut n = 0u64;
        let mut case = |out: &mut Outcome, trivial: bool, c: Value| {
            n += 1;
            if !ctx.mine(n) {
                return;
            }
            out.evaluations += 1;
            if !trivial {
                out.nontrivial(&c.to_string());
            }
            match mc::catch(|| run_case_inner(&c)).unwrap_or_else(|p| Err(format!("noise-panic :: {p} at {:?}", mc::shim::last_panic_loc()))) {
                Ok(class) => out.count(&format!("{}_{class}", c["kind"].as_str().unwrap_or("")), 1),
                Err(m) => out.violation(mc::bfs::signature_of(&m), m, c.clone()),
            }
            if n % 1999 == 4 {
                out.sample(c);
            }
        };
        // ---- mitm
        let pairs: [(usize, usize, Vec<u8>); 4] = [(0, 0, masks_bits()), (1, 2, if ctx.quick() { vec![0x01, 0x80] } else { masks_bits() }), (2, 3, if ctx.quick() { vec![0x01, 0x80] } else { masks_bits() }), (3, 1, if ctx.quick() { vec![0x01, 0x80] } else { masks_bits() })];
        for (ka, kb, masks) in &pairs {
            let lens = match honest_lens(*ka, *kb) {
                Ok(l) => l,
                Err(m) => {
                    out.violation(mc::bfs::signature_of(&m), m, json!({"kind":"mitm","ka":ka,"kb":kb,"msg":9,"fault":{"f":"none"}}));
                    continue;
                }
            };
            out.max(&format!("max_len_msg_total_{}_{}", keys::KINDS[*ka], keys::KINDS[*kb]), lens.iter().sum::<usize>() as u64);
            case(&mut out, true, json!({"kind":"mitm","ka":ka,"kb":kb,"msg":9,"fault":{"f":"none"}}));
            for msg in 0..3usize {
                let mut faults = vec![Fault::Drop, Fault::Dup, Fault::Reflect, Fault::Replay, Fault::Edit(Edit::Append(0)), Fault::Edit(Edit::Append(0xff))];
                for p in 0..lens[msg] {
                    for &m in masks {
                        faults.push(Fault::Edit(Edit::Xor(p, m)));
                    }
                }
                for l in 0..lens[msg] {
                    faults.push(Fault::Edit(Edit::Trunc(l)));
                }
                if !ctx.quick() && *ka == 0 {
                    for p in 0..lens[msg] {
                        for q in p + 1..lens[msg] {
                            faults.push(Fault::Edit(Edit::Xor2(p, 1, q, 1)));
                        }
                    }
                }
                for f in faults {
                    case(&mut out, false, json!({"kind":"mitm","ka":ka,"kb":kb,"msg":msg,"fault":f.to_json()}));
                }
            }
        }
        // ---- prologue
        for (ka, kb) in [(0usize, 0usize), (1, 2)] {
            for pa in 0..4 {
                for pb in 0..4 {
                    case(&mut out, pa == pb, json!({"kind":"prologue","ka":ka,"kb":kb,"pa":pa,"pb":pb}));
                }
            }
        }
        // length-structured pairs: equal (control), and differing only in the last / first / middle
        // byte or only in length (one a strict prefix of the other by one byte), either side
        for l in PROLOGUE_LENS {
            case(&mut out, true, json!({"kind":"prologue","ka":0,"kb":0,"pa":{"len":l,"var":"base"},"pb":{"len":l,"var":"base"}}));
            for var in ["last", "first", "mid", "short", "long"] {
                if l == 1 && var == "mid" {
                    continue;
                }
                case(&mut out, false, json!({"kind":"prologue","ka":0,"kb":0,"pa":{"len":l,"var":"base"},"pb":{"len":l,"var":var}}));
                case(&mut out, false, json!({"kind":"prologue","ka":0,"kb":0,"pa":{"len":l,"var":var},"pb":{"len":l,"var":"base"}}));
            }
        }
        // ---- adversary-only replay of a recorded session (every prefix of the recorded messages)
        for (ka, kb) in [(0usize, 0usize), (1, 2), (2, 3), (3, 1)] {
            for (victim, max) in [("responder", 3usize), ("initiator", 2)] {
                for n in 1..=max {
                    case(&mut out, false, json!({"kind":"replayonly","ka":ka,"kb":kb,"victim":victim,"n":n}));
                }
            }
        }
        // ---- hostile endpoint
        for victim in ["responder", "initiator"] {
            for ke in 0..4usize {
                for kv in 0..4usize {
                    for id in ["E", "V", "empty", "garbage"] {
                        for sig in ["E_over_E", "V_recorded", "empty", "garbage", "E_no_domain", "E_over_other", "E_over_V_static_unknown"] {
                            case(&mut out, id == "E" && sig == "E_over_E", json!({"kind":"hostile","ke":ke,"kv":kv,"victim":victim,"id":id,"sig":sig}));
                        }
                    }
                }
            }
            // every 1-bit flip of the valid ed25519 signature
            for p in 0..64usize {
                for m in masks_bits() {
                    case(&mut out, false, json!({"kind":"hostile","ke":0,"kv":0,"victim":victim,"id":"E","sig":"E_over_E_edit","edit":Edit::Xor(p, m).to_json()}));
                }
            }
        }
        out
        });
        match r {
            Ok(o) => o,
            Err(p) => {
                let mut o = Outcome::default();
                o.machinery(format!("worker thread panicked: {p}"));
                o
            }
        }
    });
    out.sample(json!({"kind":"hostile","ke":0,"kv":1,"victim":"responder","id":"V","sig":"V_recorded","note":"E completes the exchange with its own static key but announces V's key and V's (valid, recorded) signature over V's static key"}));
    if out.violations.is_empty() {
        for (k, min) in [("mitm_untouched_A-ok_B-ok", 4u64), ("mitm_A-err_B-err", 1), ("mitm_A-ok_B-err", 1), ("prologue_prologue-equal-ok", 20), ("prologue_prologue-different-fails", 130), ("replayonly_replay-rejected", 20), ("hostile_hostile-legit-accepted", 32), ("hostile_hostile-rejected", 100)] {
            if out.get(k) < min {
                out.machinery(format!("vacuity: counter {k} = {} (< {min})", out.get(k)));
            }
        }
    }
    out
}
