//! C20 — identities and keys have faithful, total encodings (E3: complete enumeration of a
//! bounded input space through the public API of libp2p-identity).
//!
//! Readings settled on (the statement leaves them open, the oracle accepts both answers):
//!  * a SHA2-256 multihash is accepted whatever its digest length (0..=64 must be accepted;
//!    > 64 does not fit the 64-byte multihash type and is left open);
//!  * non-minimal varints in a multihash are left open (if accepted, the result must round-trip);
//!  * `Keypair::to_protobuf_encoding` for RSA answers `Err(encoding unsupported)`: the private
//!    RSA *encoding* is not a supported operation, so only the decoding side is exercised for it.

use crate::keys::{self, b58_decode, b58_encode, hex, sha256, unhex};
use libp2p_identity::{Keypair, PeerId, PublicKey};
use mc::{json, Ctx, Meta, Outcome, Value};
use std::str::FromStr;

pub const META: Meta = Meta {
    level: "exploration",
    rule: "PeerId bytes: every multihash (code in {0x00,0x12,0x11,0x13,0xb220}) x digest length 0..=66 x 3 content patterns, every single-byte substitution (255 values), truncation and 1-byte extension of the peer ids of 4 key types; base58: every string of length <=3 (quick) / <=4 (thorough) over a 10-character alphabet (valid, look-alike invalid, non-ASCII) and every single-character substitution of valid ids; keys: 3 fixed keys per type (ed25519, secp256k1, ecdsa, rsa 2048/3072/4096): public/private protobuf round trip vs an independent encoder, peer-id derivation vs an independent SHA-256, every single-byte substitution and truncation of the public and private encodings (RSA private: 3 masks quick / 255 thorough), every byte string of length <=3 / <=4 over {00,08,12,01,02,03,ff}; structure-aware edits of each key type's inner encoding (raw key bytes, X.509 SPKI, SEC1, PKCS#1): every prefix of the data and, for DER, for every TLV (also inside BIT/OCTET STRINGs wrapping DER): content emptied / cut to prefixes / one byte longer, trailing children dropped, node deleted / duplicated / re-tagged (9 tags), always with all enclosing DER lengths and the protobuf length recomputed, under each key-type number 0..4 and without a type field. Non-trivial = distinct inputs other than untouched valid encodings.",
    explanation: "Complete enumeration (E3). Oracle: from_bytes accepts exactly canonical identity multihashes with digest <=42 and SHA2-256 multihashes (reference multihash parser in the harness), accepted ids round-trip through bytes and base58 (reference base58 codec in the harness); PeerId of a key = identity multihash of the protobuf encoding iff it is <=42 bytes else SHA2-256 of it; key encodings equal an independent protobuf encoding and decode back to equal keys; whatever mutated input is accepted re-encodes to something that decodes to the same key; no call panics.",
    assumptions: &["keys are fixed test keys, not generated", "RSA private-key protobuf *encoding* is unsupported by the API (Err), only decoding is exercised", "digest interiors represented by three content patterns"],
};

// ---------------------------------------------------------------------------------------------
// reference multihash reading

#[derive(Debug, PartialEq)]
enum Mh {
    Canon(u64, usize),
    NonMinimal,
    Malformed,
}

fn ref_varint(b: &[u8]) -> Option<(u64, usize, bool)> {
    // LEB128, at most 10 bytes; third component: minimal encoding?
    let mut v: u128 = 0;
    for (i, x) in b.iter().enumerate().take(10) {
        v |= ((x & 0x7f) as u128) << (7 * i);
        if x & 0x80 == 0 {
            if v > u64::MAX as u128 {
                return None;
            }
            let minimal = !(i > 0 && *x == 0);
            return Some((v as u64, i + 1, minimal));
        }
    }
    None
}

fn ref_mh(b: &[u8]) -> Mh {
    let Some((code, n1, m1)) = ref_varint(b) else { return Mh::Malformed };
    let Some((len, n2, m2)) = ref_varint(&b[n1..]) else { return Mh::Malformed };
    if len > 255 || (b.len() - n1 - n2) as u64 != len {
        return Mh::Malformed;
    }
    if !m1 || !m2 {
        return Mh::NonMinimal;
    }
    Mh::Canon(code, len as usize)
}

#[derive(Debug, PartialEq, Clone, Copy)]
enum Expect {
    Accept,
    Reject,
    Open,
}

fn expect_for(b: &[u8]) -> Expect {
    match ref_mh(b) {
        Mh::Malformed => Expect::Reject,
        Mh::NonMinimal => Expect::Open,
        Mh::Canon(0x00, l) => {
            if l <= 42 {
                Expect::Accept
            } else {
                Expect::Reject
            }
        }
        Mh::Canon(0x12, l) => {
            if l <= 64 {
                Expect::Accept
            } else {
                Expect::Open
            }
        }
        Mh::Canon(_, _) => Expect::Reject,
    }
}

fn accepted_invariants(p: &PeerId, what: &str) -> Result<(), String> {
    let bytes = p.to_bytes();
    let mh: &multihash::Multihash<64> = p.as_ref();
    let ok_code = (mh.code() == 0 && mh.digest().len() <= 42) || mh.code() == 0x12;
    if !ok_code {
        return Err(format!("peerid-accepted-bad-code :: {what}: accepted id has code {:#x} digest len {}", mh.code(), mh.digest().len()));
    }
    match mc::catch(|| PeerId::from_bytes(&bytes)) {
        Ok(Ok(q)) if q == *p => {}
        other => return Err(format!("peerid-bytes-roundtrip :: {what}: from_bytes(to_bytes()) = {:?}", other.map(|r| r.map(|q| q.to_string()).map_err(|e| e.to_string())))),
    }
    let s = p.to_base58();
    if s != b58_encode(&bytes) {
        return Err(format!("peerid-base58-encoding :: {what}: to_base58 = {s}, reference = {}", b58_encode(&bytes)));
    }
    if p.to_string() != s {
        return Err(format!("peerid-display :: {what}: Display {} != to_base58 {s}", p));
    }
    match mc::catch(|| PeerId::from_str(&s)) {
        Ok(Ok(q)) if q == *p => Ok(()),
        other => Err(format!("peerid-base58-roundtrip :: {what}: parse(to_base58()) = {:?}", other.map(|r| r.map(|q| q.to_string()).map_err(|e| e.to_string())))),
    }
}

fn pid_bytes_case(b: &[u8]) -> Result<&'static str, String> {
    let r = mc::catch(|| PeerId::from_bytes(b)).map_err(|p| format!("peerid-from_bytes-panic :: {p} at {:?}", mc::shim::last_panic_loc()))?;
    let exp = expect_for(b);
    match (&r, exp) {
        (Ok(_), Expect::Reject) => return Err(format!("peerid-accepts-invalid :: from_bytes accepted {} (reference reading: {:?})", hex(b), ref_mh(b))),
        (Err(e), Expect::Accept) => return Err(format!("peerid-rejects-valid :: from_bytes rejected {} ({e}) (reference reading: {:?})", hex(b), ref_mh(b))),
        _ => {}
    }
    if let Ok(p) = r {
        if matches!(ref_mh(b), Mh::Canon(..)) && p.to_bytes() != b {
            return Err(format!("peerid-bytes-not-faithful :: to_bytes {} != input {}", hex(&p.to_bytes()), hex(b)));
        }
        accepted_invariants(&p, "from_bytes")?;
        // TryFrom<Vec<u8>> must agree
        if PeerId::try_from(b.to_vec()).ok() != Some(p) {
            return Err("peerid-tryfrom-disagrees :: TryFrom<Vec<u8>> differs from from_bytes".into());
        }
        return Ok(if exp == Expect::Open { "accepted-open" } else { "accepted" });
    }
    if PeerId::try_from(b.to_vec()).is_ok() {
        return Err("peerid-tryfrom-disagrees :: TryFrom<Vec<u8>> accepts what from_bytes rejects".into());
    }
    Ok(if exp == Expect::Open { "rejected-open" } else { "rejected" })
}

fn pid_str_case(s: &str) -> Result<&'static str, String> {
    let r = mc::catch(|| PeerId::from_str(s)).map_err(|p| format!("peerid-from_str-panic :: {p} at {:?}", mc::shim::last_panic_loc()))?;
    let Some(bytes) = b58_decode(s) else {
        return match r {
            Ok(p) => Err(format!("peerid-accepts-invalid-base58 :: from_str accepted {s:?} as {p}")),
            Err(_) => Ok("rejected-alphabet"),
        };
    };
    let exp = expect_for(&bytes);
    match (&r, exp) {
        (Ok(_), Expect::Reject) => return Err(format!("peerid-str-accepts-invalid :: from_str accepted {s:?} = bytes {} ({:?})", hex(&bytes), ref_mh(&bytes))),
        (Err(e), Expect::Accept) => return Err(format!("peerid-str-rejects-valid :: from_str rejected {s:?} = bytes {} ({e})", hex(&bytes))),
        _ => {}
    }
    match r {
        Ok(p) => {
            if matches!(ref_mh(&bytes), Mh::Canon(..)) && (p.to_bytes() != bytes || p.to_base58() != s) {
                return Err(format!("peerid-str-not-faithful :: {s:?} -> {} -> {}", hex(&p.to_bytes()), p.to_base58()));
            }
            accepted_invariants(&p, "from_str")?;
            Ok("accepted")
        }
        Err(_) => Ok("rejected"),
    }
}

// ---------------------------------------------------------------------------------------------
// keys

/// independent expectation of the public-key protobuf: {1: type, 2: data}
fn ref_pub_encoding(kp: &Keypair) -> Vec<u8> {
    let pk = kp.public();
    let (t, data): (u64, Vec<u8>) = if let Ok(k) = pk.clone().try_into_ed25519() {
        (1, k.to_bytes().to_vec())
    } else if let Ok(k) = pk.clone().try_into_secp256k1() {
        (2, k.to_bytes().to_vec())
    } else if let Ok(k) = pk.clone().try_into_ecdsa() {
        (3, k.encode_der())
    } else {
        (0, pk.clone().try_into_rsa().expect("rsa").encode_x509())
    };
    kit::pb::W::new().uint(1, t).bytes(2, &data).finish()
}

fn ref_peer_id_bytes(enc: &[u8]) -> Vec<u8> {
    if enc.len() <= 42 {
        let mut v = vec![0x00, enc.len() as u8];
        v.extend_from_slice(enc);
        v
    } else {
        let mut v = vec![0x12, 0x20];
        v.extend_from_slice(&sha256(enc));
        v
    }
}

fn key_case(kind: usize, i: u8) -> Result<&'static str, String> {
    let name = keys::KINDS[kind];
    let kp = keys::key(kind, i);
    let pk = kp.public();
    let enc = mc::catch(|| pk.encode_protobuf()).map_err(|p| format!("pub-encode-panic :: {name}: {p}"))?;
    let want = ref_pub_encoding(&kp);
    if enc != want {
        return Err(format!("pub-encoding-differs :: {name}#{i}: {} vs reference {}", hex(&enc), hex(&want)));
    }
    match mc::catch(|| PublicKey::try_decode_protobuf(&enc)) {
        Ok(Ok(q)) if q == pk && q.key_type() == pk.key_type() => {}
        other => return Err(format!("pub-roundtrip :: {name}#{i}: decode(encode(pk)) = {:?}", other.map(|r| r.map(|_| "different key").map_err(|e| e.to_string())))),
    }
    // peer id: deterministic, inline iff encoding <= 42 bytes
    let p1 = PeerId::from_public_key(&pk);
    let p2 = keys::key(kind, i).public().to_peer_id();
    let p3 = PeerId::from(pk.clone());
    if p1 != p2 || p1 != p3 {
        return Err(format!("peerid-not-deterministic :: {name}#{i}: {p1} {p2} {p3}"));
    }
    let wantid = ref_peer_id_bytes(&enc);
    if p1.to_bytes() != wantid {
        return Err(format!("peerid-derivation :: {name}#{i}: encoding of {} bytes gives id {} but reference {}", enc.len(), hex(&p1.to_bytes()), hex(&wantid)));
    }
    accepted_invariants(&p1, "from_public_key")?;
    // private encoding
    match mc::catch(|| kp.to_protobuf_encoding()).map_err(|p| format!("priv-encode-panic :: {name}: {p}"))? {
        Ok(penc) => {
            let secret: Vec<u8> = match kind {
                0 => kp.clone().try_into_ed25519().unwrap().to_bytes().to_vec(),
                1 => kp.clone().try_into_secp256k1().unwrap().secret().to_bytes().to_vec(),
                _ => Vec::new(),
            };
            if kind < 2 {
                let want = kit::pb::W::new().uint(1, kind as u64 + 1).bytes(2, &secret).finish();
                if penc != want {
                    return Err(format!("priv-encoding-differs :: {name}#{i}"));
                }
            }
            match mc::catch(|| Keypair::from_protobuf_encoding(&penc)) {
                Ok(Ok(k2)) if k2.public() == pk && k2.to_protobuf_encoding().ok().as_ref() == Some(&penc) => {}
                other => return Err(format!("priv-roundtrip :: {name}#{i}: from(to(kp)) = {:?}", other.map(|r| r.map(|_| "different key").map_err(|e| e.to_string())))),
            }
            // the decoded key signs for the same public key
            let k2 = Keypair::from_protobuf_encoding(&penc).unwrap();
            let sig = k2.sign(b"c20").map_err(|e| format!("priv-roundtrip-sign :: {e}"))?;
            if !pk.verify(b"c20", &sig) {
                return Err(format!("priv-roundtrip-key-differs :: {name}#{i}: signature of the decoded key does not verify under the original public key"));
            }
            Ok("key-roundtrip")
        }
        Err(e) => {
            if kind != 3 {
                return Err(format!("priv-encode-fails :: {name}#{i}: {e}"));
            }
            // RSA: encoding unsupported (documented). Exercise the decoder with an independent encoding.
            let pkcs1 = keys::pkcs1_of_pkcs8(keys::rsa_pk8(i)).ok_or("harness: cannot unwrap pkcs8")?;
            let penc = kit::pb::W::new().uint(1, 0).bytes(2, &pkcs1).finish();
            match mc::catch(|| Keypair::from_protobuf_encoding(&penc)) {
                Ok(Ok(k2)) if k2.public() == pk => Ok("key-rsa-decode-only"),
                other => Err(format!("priv-rsa-decode :: rsa#{i}: {:?}", other.map(|r| r.map(|_| "different key").map_err(|e| e.to_string())))),
            }
        }
    }
}

fn pub_bytes_case(b: &[u8], must_reject: bool) -> Result<&'static str, String> {
    let r = mc::catch(|| PublicKey::try_decode_protobuf(b)).map_err(|p| format!("pub-decode-panic :: {p} at {:?} on {}", mc::shim::last_panic_loc(), hex(b)))?;
    match r {
        Err(_) => Ok("rejected"),
        Ok(pk) => {
            if must_reject {
                return Err(format!("pub-decode-accepts-garbage :: {} accepted as {:?}", hex(b), pk.key_type()));
            }
            let enc = mc::catch(|| pk.encode_protobuf()).map_err(|p| format!("pub-reencode-panic :: {p}"))?;
            match mc::catch(|| PublicKey::try_decode_protobuf(&enc)) {
                Ok(Ok(q)) if q == pk => {}
                _ => return Err(format!("pub-accepted-not-roundtrip :: {} accepted but its re-encoding does not decode to the same key", hex(b))),
            }
            let id = mc::catch(|| pk.to_peer_id()).map_err(|p| format!("peerid-derive-panic :: {p}"))?;
            if id.to_bytes() != ref_peer_id_bytes(&enc) {
                return Err(format!("peerid-derivation :: accepted mutated key {}", hex(b)));
            }
            Ok("accepted")
        }
    }
}

fn priv_bytes_case(b: &[u8], must_reject: bool) -> Result<&'static str, String> {
    let r = mc::catch(|| Keypair::from_protobuf_encoding(b)).map_err(|p| format!("priv-decode-panic :: {p} at {:?} on {} bytes", mc::shim::last_panic_loc(), b.len()))?;
    match r {
        Err(_) => Ok("rejected"),
        Ok(kp) => {
            if must_reject {
                return Err(format!("priv-decode-accepts-garbage :: {} accepted", hex(b)));
            }
            let pk = mc::catch(|| kp.public()).map_err(|p| format!("priv-public-panic :: {p}"))?;
            if let Ok(enc) = kp.to_protobuf_encoding() {
                match mc::catch(|| Keypair::from_protobuf_encoding(&enc)) {
                    Ok(Ok(k2)) if k2.public() == pk => {}
                    _ => return Err(format!("priv-accepted-not-roundtrip :: {} bytes accepted but re-encoding does not decode to the same key", b.len())),
                }
            }
            Ok("accepted")
        }
    }
}

// ---------------------------------------------------------------------------------------------

fn run_case(case: &Value) -> Result<&'static str, String> {
    let bytes = || unhex(case["bytes"].as_str().unwrap_or(""));
    let mr = case["must_reject"].as_bool().unwrap_or(false);
    match case["kind"].as_str() {
        Some("pid_bytes") => pid_bytes_case(&bytes()),
        Some("pid_str") => pid_str_case(case["s"].as_str().unwrap_or("")),
        Some("key") => key_case(case["k"].as_u64().unwrap_or(0) as usize, case["i"].as_u64().unwrap_or(0) as u8),
        Some("pub_bytes") => pub_bytes_case(&bytes(), mr),
        Some("priv_bytes") => priv_bytes_case(&bytes(), mr),
        _ => Err("bad replay case".into()),
    }
}

struct En<'a> {
    ctx: &'a Ctx,
    out: Outcome,
    n: u64,
}
impl En<'_> {
    fn case(&mut self, section: &str, trivial: bool, case: Value) {
        self.n += 1;
        if !self.ctx.mine(self.n) {
            return;
        }
        self.out.evaluations += 1;
        let key = case.to_string();
        if !trivial {
            self.out.nontrivial(&key);
        }
        match run_case(&case) {
            Ok(class) => self.out.count(&format!("{section}_{class}"), 1),
            Err(m) => self.out.violation(mc::bfs::signature_of(&m), m, case.clone()),
        }
        if self.n % 20011 == 7 {
            self.out.sample(case);
        }
    }
}

fn mutations(valid: &[u8], masks: &[u8], mut f: impl FnMut(Vec<u8>)) {
    for p in 0..valid.len() {
        for &m in masks {
            let mut v = valid.to_vec();
            v[p] ^= m;
            f(v);
        }
    }
    for l in 0..valid.len() {
        f(valid[..l].to_vec());
    }
    for extra in [0x00u8, 0x01, 0xff] {
        let mut v = valid.to_vec();
        v.push(extra);
        f(v);
    }
}

pub fn run(ctx: &Ctx) -> Outcome {
    if let Some(case) = &ctx.replay {
        let mut out = Outcome::default();
        out.evaluations = 1;
        if let Err(m) = run_case(case) {
            out.violation(mc::bfs::signature_of(&m), m, case.clone());
        }
        return out;
    }
    let all_masks: Vec<u8> = (1..=255u8).collect();
    let mut out = mc::workers(ctx, 16, |ctx| {
        let mut en = En { ctx, out: Outcome::default(), n: 0 };
        // ---- PeerId bytes: multihash grid
        for code in [0x00u64, 0x12, 0x11, 0x13, 0xb220] {
            for len in 0..=66usize {
                for pat in 0..3u8 {
                    let digest: Vec<u8> = (0..len).map(|i| match pat {
                        0 => 0x00,
                        1 => 0xff,
                        _ => i as u8 + 1,
                    }).collect();
                    let mut b = kit::pb::varint_vec(code);
                    kit::pb::varint(len as u64, &mut b);
                    b.extend_from_slice(&digest);
                    en.case("pid", false, json!({"kind":"pid_bytes","bytes":hex(&b)}));
                }
            }
        }
        // non-minimal varints, huge codes, empty
        for b in [vec![], vec![0x80, 0x00, 0x00], vec![0x00, 0x80, 0x00], vec![0x92, 0x00, 0x01, 0xaa], vec![0xff; 10], vec![0xff, 0xff, 0xff, 0xff, 0xff, 0xff, 0xff, 0xff, 0xff, 0x01, 0x00], vec![0x12, 0xff, 0x01], vec![0x12, 0x80]] {
            en.case("pid", false, json!({"kind":"pid_bytes","bytes":hex(&b)}));
        }
        // ---- PeerId bytes: mutations of real ids
        let ids: Vec<PeerId> = (0..4).map(|k| keys::key(k, 0).public().to_peer_id()).collect();
        for id in &ids {
            let valid = id.to_bytes();
            en.case("pid", true, json!({"kind":"pid_bytes","bytes":hex(&valid)}));
            mutations(&valid, &all_masks, |v| en.case("pidmut", false, json!({"kind":"pid_bytes","bytes":hex(&v)})));
        }
        // ---- base58 strings
        let alpha: [char; 10] = ['1', '2', 'z', 'Q', 'W', '0', 'O', 'l', 'é', ' '];
        mc::enumerate::sequences_upto(alpha.len(), ctx.tier.pick(3, 4), |idx| {
            let s: String = idx.iter().map(|&i| alpha[i]).collect();
            en.case("b58", false, json!({"kind":"pid_str","s":s}));
        });
        let subst: Vec<char> = if ctx.quick() {
            vec!['1', '2', 'A', 'z', '0', 'O', 'I', 'l', '+', '/', ' ', 'é', '€', '\n']
        } else {
            let mut v: Vec<char> = keys::B58.iter().map(|b| *b as char).collect();
            v.extend(['0', 'O', 'I', 'l', '+', '/', ' ', 'é', '€', '𝄞', '\n', '\0']);
            v
        };
        for id in &ids {
            let s = id.to_base58();
            en.case("b58", true, json!({"kind":"pid_str","s":s}));
            let chars: Vec<char> = s.chars().collect();
            for p in 0..chars.len() {
                for &c in &subst {
                    if chars[p] == c {
                        continue;
                    }
                    let mut t = chars.clone();
                    t[p] = c;
                    en.case("b58mut", false, json!({"kind":"pid_str","s":t.iter().collect::<String>()}));
                }
                en.case("b58mut", false, json!({"kind":"pid_str","s":chars[..p].iter().collect::<String>()}));
            }
            en.case("b58mut", false, json!({"kind":"pid_str","s":format!("{s}1")}));
            en.case("b58mut", false, json!({"kind":"pid_str","s":format!("1{s}")}));
        }
        // ---- keys
        for kind in 0..4usize {
            for i in 0..3u8 {
                en.case("key", true, json!({"kind":"key","k":kind,"i":i}));
            }
            let kp = keys::key(kind, 0);
            let penc = kp.public().encode_protobuf();
            en.case("pub", true, json!({"kind":"pub_bytes","bytes":hex(&penc)}));
            mutations(&penc, &all_masks, |v| en.case("pubmut", false, json!({"kind":"pub_bytes","bytes":hex(&v)})));
            let senc = match kp.to_protobuf_encoding() {
                Ok(e) => e,
                Err(_) => kit::pb::W::new().uint(1, 0).bytes(2, &keys::pkcs1_of_pkcs8(keys::rsa_pk8(0)).unwrap()).finish(),
            };
            en.case("priv", true, json!({"kind":"priv_bytes","bytes":hex(&senc)}));
            let masks: &[u8] = if kind == 3 && ctx.quick() { &[0x01, 0x80, 0xff] } else { &all_masks };
            mutations(&senc, masks, |v| en.case("privmut", false, json!({"kind":"priv_bytes","bytes":hex(&v)})));
        }
        // ---- structure-aware edits of each key type's inner encoding, re-wrapped in a
        //      well-formed protobuf (lengths recomputed), under every key-type number
        for kind in 0..4usize {
            let kp = keys::key(kind, 0);
            let penc = kp.public().encode_protobuf();
            let senc = match kp.to_protobuf_encoding() {
                Ok(e) => e,
                Err(_) => kit::pb::W::new().uint(1, 0).bytes(2, &keys::pkcs1_of_pkcs8(keys::rsa_pk8(0)).unwrap()).finish(),
            };
            for (what, enc) in [("pub_bytes", penc), ("priv_bytes", senc)] {
                let Some(fields) = kit::pb::parse(&enc) else { continue };
                let Some(data) = fields.iter().find_map(|f| if let kit::pb::Field::Bytes(2, d) = f { Some(d.clone()) } else { None }) else { continue };
                let mut variants: Vec<Vec<u8>> = Vec::new();
                let lens: Vec<usize> = if data.len() <= 130 { (0..data.len()).collect() } else { vec![0, 1, 2, 3, 4, 8, 16, data.len() / 2, data.len() - 2, data.len() - 1] };
                for l in lens {
                    variants.push(data[..l].to_vec());
                }
                let mut longer = data.clone();
                longer.push(0);
                variants.push(longer);
                for (_, e) in crate::der::edits(&data) {
                    variants.push(e);
                }
                variants.sort();
                variants.dedup();
                for v in &variants {
                    for t in 0..5u64 {
                        let b = kit::pb::W::new().uint(1, t).bytes(2, v).finish();
                        en.case(if what == "pub_bytes" { "pubstruct" } else { "privstruct" }, false, json!({"kind":what,"bytes":hex(&b)}));
                    }
                    // data field only / data before type
                    let b = kit::pb::W::new().bytes(2, v).finish();
                    en.case(if what == "pub_bytes" { "pubstruct" } else { "privstruct" }, false, json!({"kind":what,"bytes":hex(&b)}));
                }
            }
        }
        // ---- short byte strings
        let a: [u8; 7] = [0x00, 0x08, 0x12, 0x01, 0x02, 0x03, 0xff];
        mc::enumerate::sequences_upto(a.len(), ctx.tier.pick(3, 4), |idx| {
            let b: Vec<u8> = idx.iter().map(|&i| a[i]).collect();
            en.case("short", false, json!({"kind":"pub_bytes","bytes":hex(&b),"must_reject":true}));
            en.case("short", false, json!({"kind":"priv_bytes","bytes":hex(&b),"must_reject":true}));
            en.case("shortpid", false, json!({"kind":"pid_bytes","bytes":hex(&b)}));
        });
        en.out.count("cases_enumerated", if ctx.worker.map(|w| w.0 == 0).unwrap_or(true) { en.n } else { 0 });
        en.out
    });
    out.sample(json!({"kind":"key","k":0,"i":0,"note":"ed25519 key #0: public/private round trip, peer id derivation"}));
    // vacuity guards: each section must have seen both answers
    for (acc, rej) in [("pid_accepted", "pid_rejected"), ("pidmut_accepted", "pidmut_rejected"), ("b58mut_accepted", "b58mut_rejected"), ("pubmut_accepted", "pubmut_rejected"), ("privmut_accepted", "privmut_rejected")] {
        if out.violations.is_empty() && (out.get(acc) == 0 || out.get(rej) == 0) {
            out.machinery(format!("vacuity: {acc}={} {rej}={}", out.get(acc), out.get(rej)));
        }
    }
    if out.violations.is_empty() && out.get("key_key-roundtrip") != 9 {
        out.machinery(format!("vacuity: expected 9 key round trips, got {}", out.get("key_key-roundtrip")));
    }
    if out.violations.is_empty() && out.get("key_key-rsa-decode-only") != 3 {
        out.machinery(format!("vacuity: expected 3 rsa decode-only cases, got {}", out.get("key_key-rsa-decode-only")));
    }
    out.notes.push("Keypair::to_protobuf_encoding answers Err(encoding unsupported) for RSA; only the decoding direction is exercised for RSA private keys".into());
    out
}
