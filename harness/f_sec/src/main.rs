//! Family binary: security upgrades and identities (C16–C21).
mod c16;
mod c17;
mod c18;
mod c19;
mod c20;
mod c21;
mod der;
mod edit;
mod keys;
mod noise_kit;

fn main() {
    mc::main_dispatch(&[("C18", c18::run, c18::META), ("C16", c16::run, c16::META), ("C17", c17::run, c17::META), ("C19", c19::run, c19::META), ("C20", c20::run, c20::META), ("C21", c21::run, c21::META)]);
}
