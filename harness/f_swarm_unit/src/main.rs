//! Family binary (checks are registered here).

mod c03;
mod c08;
mod c09;
mod c10;
mod c11;
mod c12a;
mod c13;
mod probe;
/// scripted transport / probe behaviour / SwarmSys of the whole-Swarm family (shared source)
#[allow(dead_code, unused_imports)]
#[path = "../../f_swarm/src/sys.rs"]
mod sys;

fn main() {
    mc::main_dispatch(&[("C03", c03::run, c03::META), ("C08", c08::run, c08::META), ("C09", c09::run, c09::META), ("C10", c10::run, c10::META), ("C11", c11::run, c11::META), ("C12A", c12a::run, c12a::META), ("C13", c13::run, c13::META)]);
}
