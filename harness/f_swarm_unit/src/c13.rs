//! C13 — observed-address translation only swaps the host component (E3: complete enumeration
//! of (original, observed) pairs against an independent reference).

use libp2p_swarm::_address_translation;
use mc::{json, Ctx, Meta, Outcome, Value};
use multiaddr::{Multiaddr, Protocol};

pub const META: Meta = Meta {
    level: "exploration",
    rule: "all ordered pairs (original, observed) of multiaddrs of length 0..=2 (quick) / 0..=3 (thorough) over the 19 components {ip4 A, ip4 B, ip4 0.0.0.0 / 127.0.0.1 / 255.255.255.255, ip6, ip6 ::ffff:1.2.3.4 (v4-mapped) / ::1.2.3.4 (v4-compatible) / :: / ::1 / fe80::1, dns, dns4, dns6, tcp/1, udp/2, quic-v1, p2p X, memory/5}, in every order (multiaddr does not restrict component order). Non-trivial = distinct pairs for which a translation is produced (Some) plus distinct pairs refused although the original starts with IP/DNS.",
    explanation: "Complete enumeration (E3); oracle computed independently on component lists: Some(observed[0] ++ original[1..]) iff both first components are ip4/ip6/dns/dns4/dns6, else None; compared component-wise and byte-wise.",
    assumptions: &["one representative per component kind plus special IPv4/IPv6 host values", "multiaddr parsing/iteration is trusted"],
};

fn alphabet() -> Vec<Protocol<'static>> {
    vec![
        Protocol::Ip4("192.0.2.1".parse().unwrap()),
        Protocol::Ip4("10.0.0.7".parse().unwrap()),
        Protocol::Ip6("2001:db8::1".parse().unwrap()),
        // special host values (both sides): IPv4-mapped / IPv4-compatible IPv6, ::, ::1,
        // link-local, and IPv4 unspecified / loopback / broadcast
        Protocol::Ip6("::ffff:1.2.3.4".parse().unwrap()),
        Protocol::Ip6("::1.2.3.4".parse().unwrap()),
        Protocol::Ip6("::".parse().unwrap()),
        Protocol::Ip6("::1".parse().unwrap()),
        Protocol::Ip6("fe80::1".parse().unwrap()),
        Protocol::Ip4("0.0.0.0".parse().unwrap()),
        Protocol::Ip4("127.0.0.1".parse().unwrap()),
        Protocol::Ip4("255.255.255.255".parse().unwrap()),
        Protocol::Dns("example.com".into()),
        Protocol::Dns4("four.example".into()),
        Protocol::Dns6("six.example".into()),
        Protocol::Tcp(1),
        Protocol::Udp(2),
        Protocol::QuicV1,
        Protocol::P2p(kit::ids::peer(1)),
        Protocol::Memory(5),
    ]
}

fn is_host(p: &Protocol) -> bool {
    matches!(p, Protocol::Ip4(_) | Protocol::Ip6(_) | Protocol::Dns(_) | Protocol::Dns4(_) | Protocol::Dns6(_))
}

fn tag(p: Option<&Protocol>) -> &'static str {
    match p {
        None => "empty",
        Some(p) => p.tag(),
    }
}

fn build(comps: &[Protocol<'static>]) -> Multiaddr {
    let mut m = Multiaddr::empty();
    for c in comps {
        m.push(c.clone());
    }
    m
}

/// independent reference
fn expect(orig: &[Protocol<'static>], obs: &[Protocol<'static>]) -> Option<Vec<Protocol<'static>>> {
    let (o0, b0) = (orig.first()?, obs.first()?);
    if !is_host(o0) || !is_host(b0) {
        return None;
    }
    let mut v = vec![b0.clone()];
    v.extend(orig[1..].iter().cloned());
    Some(v)
}

fn comps(m: &Multiaddr) -> Vec<Protocol<'static>> {
    m.iter().map(|p| p.acquire()).collect()
}

/// Ok(true) = translated, Ok(false) = refused
fn case(orig: &Multiaddr, obs: &Multiaddr) -> Result<bool, String> {
    let oc = comps(orig);
    let bc = comps(obs);
    let want = expect(&oc, &bc);
    let got = mc::catch(|| _address_translation(orig, obs)).map_err(|p| format!("panic orig0={} obs0={} :: {p}", tag(oc.first()), tag(bc.first())))?;
    match (&got, &want) {
        (None, None) => Ok(false),
        (Some(g), Some(w)) => {
            let gc = comps(g);
            if &gc != w || g.to_vec() != build(w).to_vec() {
                return Err(format!("wrong-translation orig0={} obs0={} :: translate({orig}, {obs}) = {g}, expected {}", tag(oc.first()), tag(bc.first()), build(w)));
            }
            Ok(true)
        }
        (Some(g), None) => Err(format!("translated-but-must-refuse orig0={} obs0={} :: translate({orig}, {obs}) = {g}, expected None", tag(oc.first()), tag(bc.first()))),
        (None, Some(w)) => Err(format!("refused-but-must-translate orig0={} obs0={} :: translate({orig}, {obs}) = None, expected {}", tag(oc.first()), tag(bc.first()), build(w))),
    }
}

pub fn run(ctx: &Ctx) -> Outcome {
    let mut out = Outcome::default();
    if let Some(c) = &ctx.replay {
        out.evaluations = 1;
        let parse = |k: &str| -> Multiaddr { c[k].as_str().unwrap_or("").parse().unwrap_or_else(|_| Multiaddr::empty()) };
        if let Err(m) = case(&parse("original"), &parse("observed")) {
            out.violation(mc::bfs::signature_of(&m), m, c.clone());
        }
        return out;
    }
    let alpha = alphabet();
    let maxlen = ctx.tier.pick(2, 3);
    let mut addrs: Vec<Multiaddr> = Vec::new();
    mc::enumerate::sequences_upto(alpha.len(), maxlen, |idx| {
        addrs.push(build(&idx.iter().map(|&i| alpha[i].clone()).collect::<Vec<_>>()));
    });
    out.count("addresses", addrs.len() as u64);
    let (mut some, mut none) = (0u64, 0u64);
    for (i, a) in addrs.iter().enumerate() {
        for (j, b) in addrs.iter().enumerate() {
            out.evaluations += 1;
            match case(a, b) {
                Ok(true) => {
                    some += 1;
                    out.nontrivial_h(((i as u64) << 32) | j as u64);
                    if some % 40_009 == 7 {
                        out.sample(json!({"original": a.to_string(), "observed": b.to_string(), "result": _address_translation(a, b).map(|m| m.to_string())}));
                    }
                }
                Ok(false) => {
                    none += 1;
                    if a.iter().next().map(|p| is_host(&p)).unwrap_or(false) {
                        out.nontrivial_h((1 << 63) | ((i as u64) << 32) | j as u64);
                        if none % 50_021 == 11 {
                            out.sample(json!({"original": a.to_string(), "observed": b.to_string(), "result": Value::Null}));
                        }
                    }
                }
                Err(m) => out.violation(mc::bfs::signature_of(&m), m, json!({"original": a.to_string(), "observed": b.to_string()})),
            }
        }
    }
    out.count("translated", some);
    out.count("refused", none);
    if some == 0 || none == 0 {
        out.machinery("vacuity: enumeration did not produce both translated and refused pairs");
    }
    out.notes.push(format!("addresses of length 0..={maxlen}: {}", addrs.len()));
    out
}
