//! C11 — protocol-change notifications track the advertised protocol sets (E3: complete
//! enumeration of sequences of advertised lists / remote reports, each run through a production
//! `Connection` (hook `VConnection`) with a probe handler that folds the events it receives).
//!
//! Oracle (exactly the statement): after every quiescent poll the fold of the
//! `LocalProtocolsChange` events equals the set of *valid* names (`StreamProtocol` accepts names
//! starting with '/') of the list the handler's `listen_protocol` currently returns; the fold of
//! the `RemoteProtocolsChange` events equals (reported added) minus (reported removed). Redundant
//! notifications (Added for a name already present, Removed for an absent one) do not change a
//! set fold; they are counted, not judged. Equal names are reported in both representations
//! (`StreamProtocol::new` / `try_from_owned`); a direct sub-check demands Eq/Hash consistency of
//! `StreamProtocol` over all pairs of representations. (Local names always reach the connection as
//! strings and are converted with `try_from_owned`, so there is one representation on that side.)

use crate::probe::{Driver, FOREVER};
use libp2p_swarm::handler::ProtocolSupport;
use libp2p_swarm::StreamProtocol;
use mc::{json, Ctx, Meta, Outcome};
use std::collections::{BTreeSet, HashSet};

pub const META: Meta = Meta {
    level: "exploration",
    rule: "local: every sequence of 3 (quick) / 4 (thorough) advertised lists, each list any of the 85 lists of length <=3 over {/a,/b,/c,x(invalid)} with duplicates (first = initial list at connection creation); remote: every sequence of <=3 (quick) / <=4 (thorough) reports Added(S)/Removed(S), S any subset of {/a/1,/b/2,/c/3}, the names of a report either all StreamProtocol::new(static) or all try_from_owned (32 report kinds), interleaved with local list changes; batches: every sequence of <=2 batches of <=3 static-name reports and of <=2 batches of <=2 reports in both representations (thorough also <=3 batches of <=2 reports and 3 names) where all reports of a batch are emitted back-to-back inside ONE Connection::poll, either straight away or triggered by the LocalProtocolsChange event of the same step (local change directly followed by remote reports in the same poll). Non-trivial = distinct sequences in which at least one step changes the expected set.",
    explanation: "Each sequence is executed on a fresh production Connection over an idle scripted muxer; after every step the connection is polled to quiescence and the probe handler's folds are compared with the expected sets.",
    assumptions: &["names over a 4-letter alphabet, lists of length <=3", "each list change is followed by a poll of the connection (as the connection task would be woken)"],
};

const NAMES: [&str; 4] = ["/a", "/b", "/c", "x"];

fn lists() -> Vec<Vec<usize>> {
    let mut v = Vec::new();
    mc::enumerate::sequences_upto(NAMES.len(), 3, |idx| v.push(idx.to_vec()));
    v
}
fn names(l: &[usize]) -> Vec<String> {
    l.iter().map(|&i| NAMES[i].to_string()).collect()
}
fn valid(l: &[usize]) -> BTreeSet<String> {
    l.iter().map(|&i| NAMES[i]).filter(|n| n.starts_with('/')).map(|n| n.to_string()).collect()
}
fn has_dups(l: &[usize]) -> bool {
    let s: BTreeSet<usize> = l.iter().copied().collect();
    s.len() != l.len()
}

fn mismatch(which: &str, fold: &BTreeSet<String>, want: &BTreeSet<String>, ctx_note: &str, detail: String) -> Option<String> {
    if fold == want {
        return None;
    }
    let stale = fold.difference(want).count() > 0;
    let missing = want.difference(fold).count() > 0;
    let kind = match (stale, missing) {
        (true, false) => "stale",
        (false, true) => "missing",
        _ => "stale+missing",
    };
    Some(format!("{which}-fold {kind} ({ctx_note}) :: fold {fold:?} expected {want:?}; {detail}"))
}

/// run one sequence of advertised lists; Err = first mismatch
fn local_case(seq: &[Vec<usize>]) -> Result<u64, String> {
    let mut d = Driver::new(names(&seq[0]), true, FOREVER, FOREVER, 4);
    let mut events = 0;
    for (k, l) in seq.iter().enumerate() {
        if k > 0 {
            d.h.lock().unwrap().protocols = names(l);
        }
        if let Err(e) = d.run() {
            return Err(format!("connection-error :: {e} at step {k}"));
        }
        let h = d.h.lock().unwrap();
        let note = if k == 0 {
            "initial list"
        } else if has_dups(l) {
            "new list has duplicate names"
        } else {
            "new list without duplicates"
        };
        if let Some(m) = mismatch("local", &h.local_fold, &valid(l), note, format!("lists {:?}, step {k}", seq.iter().map(|l| names(l)).collect::<Vec<_>>())) {
            return Err(m);
        }
        events = h.local_events;
    }
    Ok(events)
}

/// remote reports: one report code (see `report_of`) per step
fn remote_case(seq: &[usize]) -> Result<u64, String> {
    let locals: [Vec<usize>; 3] = [vec![0], vec![0, 1], vec![2]];
    let mut d = Driver::new(names(&locals[0]), true, FOREVER, FOREVER, 4);
    d.run().map_err(|e| format!("connection-error :: {e}"))?;
    let mut model: BTreeSet<String> = BTreeSet::new();
    for (k, &a) in seq.iter().enumerate() {
        let local = &locals[(k + 1) % 3];
        {
            let r = report_of(a, &mut model);
            let mut h = d.h.lock().unwrap();
            h.protocols = names(local);
            h.report.push_back(r);
        }
        d.run().map_err(|e| format!("connection-error :: {e}"))?;
        let h = d.h.lock().unwrap();
        let kind = if a & 8 == 0 { "after Added report" } else { "after Removed report" };
        if let Some(m) = mismatch("remote", &h.remote_fold, &model, kind, format!("reports {seq:?}, step {k}")) {
            return Err(m);
        }
        if let Some(m) = mismatch("local", &h.local_fold, &valid(local), "interleaved with remote reports", format!("reports {seq:?}, step {k}")) {
            return Err(m);
        }
    }
    let n = d.h.lock().unwrap().remote_events;
    Ok(n)
}

/// remote protocol names; several, so that a chance hash-bucket match cannot mask a lookup that
/// uses the wrong hash
const RNAMES: [&str; 3] = ["/a/1", "/b/2", "/c/3"];

/// a protocol name in one of its two representations: `StreamProtocol::new(&'static str)` or
/// `StreamProtocol::try_from_owned(String)` (equal by `==`, must behave identically)
fn rname(i: usize, owned: bool) -> StreamProtocol {
    if owned {
        StreamProtocol::try_from_owned(RNAMES[i].to_string()).expect("valid")
    } else {
        StreamProtocol::new(RNAMES[i])
    }
}

/// report code: bits 0..=2 subset of RNAMES, bit 3 = Removed (else Added), bit 4 = names in their
/// owned representation (else static)
fn report_of(a: usize, model: &mut BTreeSet<String>) -> ProtocolSupport {
    let owned = a & 16 != 0;
    let set: HashSet<StreamProtocol> = (0..3).filter(|b| a & (1 << b) != 0).map(|b| rname(b, owned)).collect();
    if a & 8 == 0 {
        for p in &set {
            model.insert(p.to_string());
        }
        ProtocolSupport::Added(set)
    } else {
        for p in &set {
            model.remove(p.as_ref());
        }
        ProtocolSupport::Removed(set)
    }
}

/// report codes over the first `names` names, with (`reprs` = 2) or without the owned representation
fn codes(names: usize, reprs: usize) -> Vec<usize> {
    let mut v = Vec::new();
    for owned in 0..reprs {
        for kind in 0..2 {
            for sub in 0..(1usize << names) {
                v.push(sub | (kind << 3) | (owned << 4));
            }
        }
    }
    v
}

/// direct sub-check: `a == b` implies `hash(a) == hash(b)` and set membership, over all pairs of
/// representations of all names
fn hash_eq_consistency() -> Result<u64, String> {
    use std::hash::{Hash, Hasher};
    let mut all: Vec<(String, StreamProtocol)> = Vec::new();
    for n in RNAMES.iter().chain(NAMES.iter().filter(|n| n.starts_with('/'))) {
        all.push((format!("new({n})"), StreamProtocol::new(n)));
        all.push((format!("try_from_owned({n})"), StreamProtocol::try_from_owned(n.to_string()).map_err(|e| format!("harness-desync :: {e}"))?));
    }
    let h = |p: &StreamProtocol| {
        let mut s = std::collections::hash_map::DefaultHasher::new();
        p.hash(&mut s);
        s.finish()
    };
    let mut pairs = 0;
    for (na, a) in &all {
        for (nb, b) in &all {
            pairs += 1;
            if (a == b) != (a.as_ref() == b.as_ref()) {
                return Err(format!("stream-protocol-eq-inconsistent :: {na} == {nb} is {}", a == b));
            }
            if a == b && h(a) != h(b) {
                return Err(format!("stream-protocol-hash-eq-inconsistent :: {na} == {nb} but their hashes differ"));
            }
            let set: HashSet<StreamProtocol> = [a.clone()].into_iter().collect();
            if set.contains(b) != (a == b) {
                return Err(format!("stream-protocol-set-lookup-inconsistent :: HashSet{{{na}}}.contains({nb}) = {} although == is {}", set.contains(b), a == b));
            }
        }
    }
    Ok(pairs)
}

/// batches of remote reports emitted back-to-back inside ONE `Connection::poll` (the handler
/// returns them from consecutive `poll` calls without a `Pending` in between); with `on_local`
/// the handler starts emitting the batch when it receives the LocalProtocolsChange event of the
/// same step, i.e. a local change directly followed by remote reports in the same poll.
fn batch_case(seq: &[Vec<usize>], on_local: bool) -> Result<u64, String> {
    let locals: [Vec<usize>; 3] = [vec![0], vec![0, 1], vec![2]];
    let mut d = Driver::new(names(&locals[0]), true, FOREVER, FOREVER, 4);
    d.run().map_err(|e| format!("connection-error :: {e}"))?;
    let mut model: BTreeSet<String> = BTreeSet::new();
    let note = if on_local { "reports emitted right after a local change, same poll" } else { "several reports in one poll" };
    for (k, batch) in seq.iter().enumerate() {
        let local = &locals[(k + 1) % 3];
        {
            let mut h = d.h.lock().unwrap();
            h.protocols = names(local);
            for &a in batch {
                let r = report_of(a, &mut model);
                if on_local {
                    h.report_on_local.push_back(r);
                } else {
                    h.report.push_back(r);
                }
            }
        }
        let polls_before = d.polls;
        d.run().map_err(|e| format!("connection-error :: {e}"))?;
        let h = d.h.lock().unwrap();
        if !h.report.is_empty() || !h.report_on_local.is_empty() {
            return Err(format!("harness-desync :: reports not consumed after step {k} of {seq:?} (on_local={on_local})"));
        }
        if d.polls != polls_before + 1 {
            return Err(format!("harness-desync polls :: step {k} of {seq:?} needed {} polls, expected all reports inside one", d.polls - polls_before));
        }
        if let Some(m) = mismatch("remote", &h.remote_fold, &model, note, format!("batches {seq:?}, step {k}")) {
            return Err(m);
        }
        if let Some(m) = mismatch("local", &h.local_fold, &valid(local), note, format!("batches {seq:?}, step {k}")) {
            return Err(m);
        }
    }
    let n = d.h.lock().unwrap().remote_events;
    Ok(n)
}

fn batches(max_reports: usize, alphabet: &[usize]) -> Vec<Vec<usize>> {
    let mut v = Vec::new();
    for l in 1..=max_reports {
        mc::enumerate::sequences(alphabet.len(), l, |s| v.push(s.iter().map(|&i| alphabet[i]).collect()));
    }
    v
}

fn guarded<T>(f: impl FnOnce() -> Result<T, String>) -> Result<T, String> {
    mc::catch(f).unwrap_or_else(|p| Err(format!("panic at {} :: {p}", mc::shim::last_panic_loc().unwrap_or_default())))
}

pub fn run(ctx: &Ctx) -> Outcome {
    let all = lists();
    if let Some(c) = &ctx.replay {
        let mut out = Outcome::default();
        out.evaluations = 1;
        let r = if c["kind"] == "hash-eq" {
            guarded(hash_eq_consistency).map(|_| ())
        } else if c["kind"] == "batch" {
            let seq: Vec<Vec<usize>> = serde_json::from_value(c["seq"].clone()).unwrap_or_default();
            let on_local = c["on_local"].as_bool().unwrap_or(false);
            guarded(|| batch_case(&seq, on_local)).map(|_| ())
        } else if c["kind"] == "remote" {
            let seq: Vec<usize> = serde_json::from_value(c["seq"].clone()).unwrap_or_default();
            guarded(|| remote_case(&seq)).map(|_| ())
        } else {
            let seq: Vec<Vec<usize>> = serde_json::from_value(c["seq"].clone()).unwrap_or_default();
            guarded(|| local_case(&seq)).map(|_| ())
        };
        if let Err(m) = r {
            out.violation(mc::bfs::signature_of(&m), m, c.clone());
        }
        return out;
    }
    let len = ctx.tier.pick(3, 4);
    let rlen = ctx.tier.pick(3, 4);
    // (max reports per batch, max batches per sequence, names, representations)
    let blens: Vec<(usize, usize, usize, usize)> = ctx.tier.pick(vec![(3, 2, 2, 1), (2, 2, 2, 2)], vec![(3, 2, 2, 1), (2, 2, 2, 2), (2, 3, 2, 1), (2, 2, 3, 2)]);
    // pre-pass in the parent: all sequences of 2 lists, so that the reported counterexample per
    // signature is a shortest one (its violations are merged first)
    let mut pre = Outcome::default();
    match guarded(hash_eq_consistency) {
        Ok(n) => pre.count("stream_protocol_representation_pairs", n),
        Err(m) => pre.violation(mc::bfs::signature_of(&m), m, json!({"kind": "hash-eq"})),
    }
    for i0 in 0..all.len() {
        for i1 in 0..all.len() {
            let seq = vec![all[i0].clone(), all[i1].clone()];
            pre.evaluations += 1;
            if let Err(m) = guarded(|| local_case(&seq)) {
                pre.violation(mc::bfs::signature_of(&m), m, json!({"kind": "local", "seq": seq}));
            }
        }
    }
    let main = mc::workers(ctx, 16, |ctx| {
        let mut out = Outcome::default();
        let mut with_events = 0u64;
        // local lists: stripe on the (initial, second) pair
        let n = all.len();
        let mut stripe = 0u64;
        for i0 in 0..n {
            for i1 in 0..n {
                stripe += 1;
                if !ctx.mine(stripe) {
                    continue;
                }
                mc::enumerate::sequences(n, len - 2, |rest| {
                    let mut seq = vec![all[i0].clone(), all[i1].clone()];
                    seq.extend(rest.iter().map(|&i| all[i].clone()));
                    out.evaluations += 1;
                    let changes = seq.windows(2).any(|w| valid(&w[0]) != valid(&w[1]));
                    if changes {
                        out.nontrivial_h(((i0 as u64) << 48) ^ ((i1 as u64) << 32) ^ rest.iter().fold(7u64, |h, &i| h.wrapping_mul(131).wrapping_add(i as u64)));
                    }
                    match guarded(|| local_case(&seq)) {
                        Ok(ev) => {
                            if ev > 1 {
                                with_events += 1;
                            }
                        }
                        Err(m) => {
                            out.count("violating_sequences", 1);
                            out.violation(mc::bfs::signature_of(&m), m, json!({"kind": "local", "seq": seq}));
                        }
                    }
                    if out.evaluations % 50_021 == 3 {
                        out.sample(json!({"kind": "local", "lists": seq.iter().map(|l| names(l)).collect::<Vec<_>>()}));
                    }
                });
            }
        }
        out.count("local_sequences_with_change_events", with_events);
        // remote reports
        let mut remote_ev = 0u64;
        let mut idx = 0u64;
        let rcodes = codes(3, 2);
        mc::enumerate::sequences_upto(rcodes.len(), rlen, |idx_seq| {
            idx += 1;
            if idx_seq.is_empty() || !ctx.mine(idx) {
                return;
            }
            let seq_v: Vec<usize> = idx_seq.iter().map(|&i| rcodes[i]).collect();
            let seq = &seq_v[..];
            out.evaluations += 1;
            out.nontrivial_h((1 << 63) | seq.iter().fold(11u64, |h, &i| h.wrapping_mul(17).wrapping_add(i as u64 + 1)));
            match guarded(|| remote_case(seq)) {
                Ok(ev) => remote_ev += ev,
                Err(m) => out.violation(mc::bfs::signature_of(&m), m, json!({"kind": "remote", "seq": seq})),
            }
            if idx % 1013 == 5 {
                out.sample(json!({"kind": "remote", "reports": seq}));
            }
        });
        out.count("remote_change_events", remote_ev);
        // batches of reports inside one poll
        let mut batch_ev = 0u64;
        let mut bidx = 0u64;
        let mut run_batch = |seq: &[Vec<usize>], out: &mut Outcome| {
            for on_local in [false, true] {
                bidx += 1;
                if !ctx.mine(bidx) {
                    continue;
                }
                out.evaluations += 1;
                if seq.iter().any(|b| b.len() > 1) || on_local {
                    out.nontrivial_h((1 << 62) ^ mc::report::hash_str(&format!("{seq:?}{on_local}")));
                }
                match guarded(|| batch_case(seq, on_local)) {
                    Ok(ev) => batch_ev += ev,
                    Err(m) => out.violation(mc::bfs::signature_of(&m), m, json!({"kind": "batch", "seq": seq, "on_local": on_local})),
                }
                if bidx % 100_003 == 7 {
                    out.sample(json!({"kind": "batch", "batches": seq, "on_local": on_local}));
                }
            }
        };
        for (max_reports, max_len, names_n, reprs) in blens.iter().copied() {
            let bs = batches(max_reports, &codes(names_n, reprs));
            for l in 1..=max_len {
                mc::enumerate::sequences(bs.len(), l, |idx| {
                    let seq: Vec<Vec<usize>> = idx.iter().map(|&i| bs[i].clone()).collect();
                    run_batch(&seq, &mut out);
                });
            }
        }
        out.count("batched_remote_change_events", batch_ev);
        out.traces = out.evaluations;
        out
    });
    pre.merge(main);
    pre.also(|out| {
        if out.get("local_sequences_with_change_events") == 0 || out.get("remote_change_events") == 0 || out.get("batched_remote_change_events") == 0 {
            out.machinery("vacuity: no LocalProtocolsChange / RemoteProtocolsChange event was ever delivered");
        }
        out.notes.push(format!("local sequences of {len} lists over 85 lists; remote report sequences of length <= {rlen}"));
    })
}

trait Also: Sized {
    fn also(self, f: impl FnOnce(&mut Self)) -> Self;
}
impl Also for Outcome {
    fn also(mut self, f: impl FnOnce(&mut Self)) -> Self {
        f(&mut self);
        self
    }
}
