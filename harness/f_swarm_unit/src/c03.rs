//! C03 — connection ids are never reused (E4: `shuttle::check_dfs` over threads that allocate ids
//! concurrently from the production allocator; the hook `SchedAtomicUsize` announces every atomic
//! operation of `NEXT_CONNECTION_ID`, and the callback installed here turns each announcement into
//! a shuttle scheduling point, so every sequentially-consistent interleaving of the allocator's
//! atomic steps is executed).
//!
//! Ids are obtained both through the hook wrapper around `ConnectionId::next()` and through the
//! public `DialOpts` builder (which allocates the id of a dial). Oracle: all ids returned in one
//! execution are pairwise distinct, and distinct from every id handed out earlier in the process.

use libp2p_swarm::dial_opts::DialOpts;
use libp2p_swarm::verif_swarm_unit::{next_connection_id, set_sched_point};
use libp2p_swarm::ConnectionId;
use mc::{json, Ctx, Meta, Outcome};
use std::collections::BTreeSet;
use std::sync::Mutex;

pub const META: Meta = Meta {
    level: "model_checking",
    rule: "shuttle DFS (no partial-order reduction) over all schedules of T threads x A allocations for (T,A) in {(2,2),(2,3),(3,2)} (quick) + (3,3),(4,2) (thorough); a scheduling point precedes every atomic operation of the allocator (plus shuttle's own spawn/join points). Allocation k of a thread uses ConnectionId::next() (even k) or the public DialOpts builder (odd k). Non-trivial = distinct orders in which the threads' atomic operations were executed with at least one switch between two threads' operations.",
    explanation: "Every schedule runs the real allocator on real shuttle threads; ids compared for pairwise distinctness within the execution and against all ids handed out before in the process.",
    assumptions: &["sequentially consistent interleavings only (no weak-memory reorderings)", "an allocator that bypasses atomics altogether (e.g. static mut) has no scheduling points and is out of reach", "process lifetime is represented by the executions of one check run (no counter wrap-around: 2^64 allocations are not reachable)"],
};

struct Rec {
    /// (thread, id) in allocation order of the current execution
    ids: Vec<(usize, usize)>,
    /// thread index per executed atomic operation, in execution order
    ops: Vec<usize>,
    executions: u64,
    interleaved: u64,
    orders: BTreeSet<Vec<usize>>,
    violation: Option<(String, Vec<usize>)>,
    /// largest id handed out in any earlier execution
    high_water: usize,
    /// when replaying: only judge the execution with this operation order
    only: Option<Vec<usize>>,
}

static REC: Mutex<Rec> = Mutex::new(Rec { ids: Vec::new(), ops: Vec::new(), executions: 0, interleaved: 0, orders: BTreeSet::new(), violation: None, high_water: 0, only: None });

fn raw(id: ConnectionId) -> usize {
    id.to_string().parse().expect("ConnectionId displays as its number")
}

fn sched_point(_op: &'static str) {
    shuttle::thread::yield_now();
    // no scheduling point between here and the atomic operation itself
    let me: usize = shuttle::current::get_current_task().map(usize::from).unwrap_or(0);
    REC.lock().unwrap().ops.push(me);
}

fn body(threads: usize, allocs: usize) {
    {
        let mut r = REC.lock().unwrap();
        r.ids.clear();
        r.ops.clear();
    }
    let hs: Vec<_> = (0..threads)
        .map(|t| {
            shuttle::thread::spawn(move || {
                for k in 0..allocs {
                    let id = if k % 2 == 0 { next_connection_id() } else { DialOpts::unknown_peer_id().address("/memory/1".parse().unwrap()).build().connection_id() };
                    REC.lock().unwrap().ids.push((t, raw(id)));
                }
            })
        })
        .collect();
    for h in hs {
        h.join().unwrap();
    }
    let mut r = REC.lock().unwrap();
    r.executions += 1;
    let ops = r.ops.clone();
    let switched = ops.windows(2).filter(|w| w[0] != w[1]).count();
    // more switches than the (threads-1) forced by running the threads one after the other
    if switched >= threads {
        r.interleaved += 1;
        if r.orders.len() < 500_000 {
            r.orders.insert(ops.clone());
        }
    }
    if r.only.as_ref().map(|o| *o != ops).unwrap_or(false) {
        return;
    }
    let mut seen = BTreeSet::new();
    let mut msg = None;
    for (t, id) in r.ids.iter() {
        if !seen.insert(*id) {
            msg = Some(format!("duplicate-id-within-execution :: id {id} handed out twice (second time to thread {t}); allocations {:?}, op order {ops:?}", r.ids));
            break;
        }
        if *id <= r.high_water {
            msg = Some(format!("id-reused-across-executions :: id {id} (thread {t}) was already handed out earlier in the process (high water {}); allocations {:?}", r.high_water, r.ids));
            break;
        }
    }
    if seen.len() + usize::from(msg.is_some()) < threads * allocs && msg.is_none() {
        msg = Some(format!("missing-allocations :: {} ids recorded, expected {}", seen.len(), threads * allocs));
    }
    let hw = r.ids.iter().map(|x| x.1).max().unwrap_or(0).max(r.high_water);
    r.high_water = hw;
    if let Some(m) = msg {
        if r.violation.is_none() {
            r.violation = Some((m, ops));
        }
    }
}

fn explore(threads: usize, allocs: usize, only: Option<Vec<usize>>, out: &mut Outcome) {
    {
        let mut r = REC.lock().unwrap();
        r.executions = 0;
        r.interleaved = 0;
        r.orders.clear();
        r.violation = None;
        r.only = only;
    }
    set_sched_point(Some(sched_point));
    let res = mc::catch(|| shuttle::check_dfs(move || body(threads, allocs), None));
    set_sched_point(None);
    let mut r = REC.lock().unwrap_or_else(|p| p.into_inner());
    let cfg = json!({"threads": threads, "allocs": allocs});
    if let Err(p) = res {
        out.machinery(format!("shuttle run panicked for {cfg}: {p}"));
    }
    out.evaluations += r.executions;
    out.traces += r.executions;
    out.states += r.executions * (threads * allocs) as u64;
    out.transitions += r.executions * (threads * allocs) as u64;
    out.count("schedules", r.executions);
    out.count("schedules_with_interleaved_atomic_ops", r.interleaved);
    let salt = mc::report::hash_str(&cfg.to_string());
    for o in r.orders.iter() {
        out.nontrivial_h(salt ^ mc::report::hash_str(&format!("{o:?}")));
    }
    out.sample(json!({"cfg": cfg, "schedules": r.executions, "distinct_interleaved_op_orders": r.orders.len(), "example_order": r.orders.iter().next_back()}));
    if let Some((m, ops)) = r.violation.take() {
        out.violation(format!("{} T{threads}xA{allocs}", mc::bfs::signature_of(&m)), m, json!({"cfg": cfg, "op_order": ops}));
    }
}

pub fn run(ctx: &Ctx) -> Outcome {
    let mut out = Outcome::default();
    if let Some(case) = &ctx.replay {
        let t = case["cfg"]["threads"].as_u64().unwrap_or(2) as usize;
        let a = case["cfg"]["allocs"].as_u64().unwrap_or(2) as usize;
        let only: Option<Vec<usize>> = serde_json::from_value(case["op_order"].clone()).ok();
        explore(t, a, only, &mut out);
        out.evaluations = 1;
        return out;
    }
    let mut cfgs = vec![(2usize, 2usize), (2, 3), (3, 2)];
    if !ctx.quick() {
        cfgs.extend([(3, 3), (4, 2)]);
    }
    for (t, a) in cfgs {
        explore(t, a, None, &mut out);
    }
    if out.get("schedules_with_interleaved_atomic_ops") == 0 {
        out.machinery("vacuity: no schedule interleaved the atomic operations of two threads (scheduling points not effective)");
    }
    out
}
