//! C03 — connection ids are never reused (E4: `shuttle::check_dfs` over threads that allocate ids
//! concurrently from the production allocator; the hook `SchedAtomicUsize` announces every atomic
//! operation of `NEXT_CONNECTION_ID`, and the callback installed here turns each announcement into
//! a shuttle scheduling point, so every sequentially-consistent interleaving of the allocator's
//! atomic steps is executed).
//!
//! Ids are obtained both through the hook wrapper around `ConnectionId::next()` and through the
//! public `DialOpts` builder (which allocates the id of a dial). Oracle: all ids returned in one
//! execution are pairwise distinct, and distinct from every id handed out earlier in the process.

use libp2p_swarm::dial_opts::DialOpts;
use libp2p_swarm::verif_swarm_unit::{next_connection_id, set_sched_point};
use libp2p_swarm::ConnectionId;
use mc::{json, Ctx, Meta, Outcome};
use std::collections::BTreeSet;
use std::sync::Mutex;

pub const META: Meta = Meta {
    level: "model_checking",
    rule: "shuttle DFS (no partial-order reduction) over all schedules of T threads x A allocations for (T,A) in {(2,2),(2,3),(3,2)} (quick) + (3,3),(4,2) (thorough); a scheduling point precedes every atomic operation of the allocator (plus shuttle's own spawn/join points). Allocation k of a thread uses ConnectionId::next() (even k) or the public DialOpts builder (odd k). Non-trivial = distinct orders in which the threads' atomic operations were executed with at least one switch between two threads' operations.",
    explanation: "Every schedule runs the real allocator on real shuttle threads; ids compared for pairwise distinctness within the execution and against all ids handed out before in the process.",
    assumptions: &["sequentially consistent interleavings only (no weak-memory reorderings)", "an allocator that bypasses atomics altogether (e.g. static mut) has no scheduling points and is out of reach", "process lifetime is represented by the executions of one check run (no counter wrap-around: 2^64 allocations are not reachable)"],
};

struct Rec {
    /// (thread, id) in allocation order of the current execution
    ids: Vec<(usize, usize)>,
    /// thread index per executed atomic operation, in execution order
    ops: Vec<usize>,
    executions: u64,
    interleaved: u64,
    orders: BTreeSet<Vec<usize>>,
    violation: Option<(String, Vec<usize>)>,
    /// largest id handed out in any earlier execution
    high_water: usize,
    /// when replaying: only judge the execution with this operation order
    only: Option<Vec<usize>>,
}

static REC: Mutex<Rec> = Mutex::new(Rec { ids: Vec::new(), ops: Vec::new(), executions: 0, interleaved: 0, orders: BTreeSet::new(), violation: None, high_water: 0, only: None });

fn raw(id: ConnectionId) -> usize {
    id.to_string().parse().expect("ConnectionId displays as its number")
}

fn sched_point(_op: &'static str) {
    shuttle::thread::yield_now();
    // no scheduling point between here and the atomic operation itself
    let me: usize = shuttle::current::get_current_task().map(usize::from).unwrap_or(0);
    REC.lock().unwrap().ops.push(me);
}

fn body(threads: usize, allocs: usize) {
    {
        let mut r = REC.lock().unwrap();
        r.ids.clear();
        r.ops.clear();
    }
    let hs: Vec<_> = (0..threads)
        .map(|t| {
            shuttle::thread::spawn(move || {
                for k in 0..allocs {
                    let id = if k % 2 == 0 { next_connection_id() } else { DialOpts::unknown_peer_id().address("/memory/1".parse().unwrap()).build().connection_id() };
                    REC.lock().unwrap().ids.push((t, raw(id)));
                }
            })
        })
        .collect();
    for h in hs {
        h.join().unwrap();
    }
    let mut r = REC.lock().unwrap();
    r.executions += 1;
    let ops = r.ops.clone();
    let switched = ops.windows(2).filter(|w| w[0] != w[1]).count();
    // more switches than the (threads-1) forced by running the threads one after the other
    if switched >= threads {
        r.interleaved += 1;
        if r.orders.len() < 500_000 {
            r.orders.insert(ops.clone());
        }
    }
    if r.only.as_ref().map(|o| *o != ops).unwrap_or(false) {
        return;
    }
    let mut seen = BTreeSet::new();
    let mut msg = None;
    for (t, id) in r.ids.iter() {
        if !seen.insert(*id) {
            msg = Some(format!("duplicate-id-within-execution :: id {id} handed out twice (second time to thread {t}); allocations {:?}, op order {ops:?}", r.ids));
            break;
        }
        if *id <= r.high_water {
            msg = Some(format!("id-reused-across-executions :: id {id} (thread {t}) was already handed out earlier in the process (high water {}); allocations {:?}", r.high_water, r.ids));
            break;
        }
    }
    if seen.len() + usize::from(msg.is_some()) < threads * allocs && msg.is_none() {
        msg = Some(format!("missing-allocations :: {} ids recorded, expected {}", seen.len(), threads * allocs));
    }
    let hw = r.ids.iter().map(|x| x.1).max().unwrap_or(0).max(r.high_water);
    r.high_water = hw;
    if let Some(m) = msg {
        if r.violation.is_none() {
            r.violation = Some((m, ops));
        }
    }
}

fn explore(threads: usize, allocs: usize, only: Option<Vec<usize>>, out: &mut Outcome) {
    {
        let mut r = REC.lock().unwrap();
        r.executions = 0;
        r.interleaved = 0;
        r.orders.clear();
        r.violation = None;
        r.only = only;
    }
    set_sched_point(Some(sched_point));
    let res = mc::catch(|| shuttle::check_dfs(move || body(threads, allocs), None));
    set_sched_point(None);
    let mut r = REC.lock().unwrap_or_else(|p| p.into_inner());
    let cfg = json!({"threads": threads, "allocs": allocs});
    if let Err(p) = res {
        out.machinery(format!("shuttle run panicked for {cfg}: {p}"));
    }
    out.evaluations += r.executions;
    out.traces += r.executions;
    out.states += r.executions * (threads * allocs) as u64;
    out.transitions += r.executions * (threads * allocs) as u64;
    out.count("schedules", r.executions);
    out.count("schedules_with_interleaved_atomic_ops", r.interleaved);
    let salt = mc::report::hash_str(&cfg.to_string());
    for o in r.orders.iter() {
        out.nontrivial_h(salt ^ mc::report::hash_str(&format!("{o:?}")));
    }
    out.sample(json!({"cfg": cfg, "schedules": r.executions, "distinct_interleaved_op_orders": r.orders.len(), "example_order": r.orders.iter().next_back()}));
    if let Some((m, ops)) = r.violation.take() {
        out.violation(format!("{} T{threads}xA{allocs}", mc::bfs::signature_of(&m)), m, json!({"cfg": cfg, "op_order": ops}));
    }
}

// ---------------------------------------------------------------------------------------------
// Part 2: id assignment at the Swarm level (one or two real Swarms in this process over the
// scripted transport of the whole-Swarm family). Every *allocation* — one per Incoming action
// (the id the Swarm passes to handle_pending_inbound_connection) and one per dial action
// (DialOpts::connection_id()) — must get an id different from every other allocation, whatever
// the behaviour denies and however the attempts resolve; every id that shows up in a behaviour
// callback must belong to an allocation.

use crate::sys::{a, Deny, DenyMask, LogEv, Probe, SwarmSys, SysCfg};
use libp2p_swarm::behaviour::ToSwarm;
use libp2p_swarm::dial_opts::PeerCondition;

const SACTS: [&str; 5] = ["Incoming", "Dial", "BehaviourDial", "ResolveOk", "ResolveErr"];

fn log_cid(e: &LogEv) -> Option<ConnectionId> {
    match e {
        LogEv::PendingIn { cid, .. }
        | LogEv::PendingOut { cid, .. }
        | LogEv::EstIn { cid, .. }
        | LogEv::EstOut { cid, .. }
        | LogEv::Established { cid, .. }
        | LogEv::Closed { cid, .. }
        | LogEv::DialFailure { cid, .. }
        | LogEv::ListenFailure { cid, .. }
        | LogEv::FromHandler { cid, .. }
        | LogEv::HandlerGot { cid, .. }
        | LogEv::HandlerPolled { cid, .. }
        | LogEv::HandlerDropped { cid, .. } => Some(*cid),
        // the shared sys.rs may grow further variants; ids in those are not judged here
        #[allow(unreachable_patterns)]
        _ => None,
    }
}

#[derive(Default)]
struct SwarmStat {
    allocations: usize,
    denied_inbound_then_incoming: bool,
}

/// `seq`: (swarm index, action index into SACTS)
fn swarm_case(masks: &[DenyMask], seq: &[(usize, usize)]) -> Result<SwarmStat, String> {
    let mut systems: Vec<SwarmSys<Probe>> = Vec::new();
    for m in masks {
        let log: crate::sys::Log = Default::default();
        let mut sys = SwarmSys::new(Probe::new(0, log.clone(), *m), log, SysCfg::default());
        sys.swarm.listen_on(a(100)).map_err(|e| format!("harness-desync :: listen_on failed: {e}"))?;
        sys.run(10_000);
        sys.take_log();
        systems.push(sys);
    }
    let many = if masks.len() > 1 { "two swarms" } else { "one swarm" };
    // (kind, swarm, id)
    let mut allocs: Vec<(&'static str, usize, ConnectionId)> = Vec::new();
    let mut stat = SwarmStat::default();
    let mut denied_inbound = vec![false; masks.len()];
    for (step, &(w, act)) in seq.iter().enumerate() {
        let sys = &mut systems[w];
        let mut new: Vec<(&'static str, usize, ConnectionId)> = Vec::new();
        let opts = || libp2p_swarm::dial_opts::DialOpts::peer_id(kit::ids::peer(1)).condition(PeerCondition::Always).addresses(vec![a(1)]).build();
        match act {
            0 => {
                if denied_inbound[w] {
                    stat.denied_inbound_then_incoming = true;
                }
                sys.ctl.lock().unwrap().incoming(0, a(100), a(200));
            }
            1 => {
                let o = opts();
                new.push(("dial", w, o.connection_id()));
                let _ = sys.swarm.dial(o);
            }
            2 => {
                let o = opts();
                new.push(("behaviour-dial", w, o.connection_id()));
                sys.swarm.behaviour_mut().push(ToSwarm::Dial { opts: o });
            }
            _ => {
                let k = sys.ctl.lock().unwrap().open_attempts().first().copied();
                if let Some(k) = k {
                    if act == 3 {
                        sys.ctl.lock().unwrap().resolve_ok(k, 1);
                    } else {
                        sys.ctl.lock().unwrap().resolve_err(k);
                    }
                }
            }
        }
        sys.kick();
        if sys.run(10_000) == kit::tasks::RunEnd::Horizon {
            return Err(format!("horizon :: swarm still runnable after 10000 steps at step {step}"));
        }
        let entries = sys.take_log();
        if act == 0 {
            let ids: Vec<ConnectionId> = entries.iter().filter_map(|(_, e)| if let LogEv::PendingIn { cid, .. } = e { Some(*cid) } else { None }).collect();
            if ids.len() != 1 {
                return Err(format!("harness-desync :: Incoming action produced {} handle_pending_inbound_connection calls", ids.len()));
            }
            new.push(("incoming", w, ids[0]));
            if entries.iter().any(|(_, e)| matches!(e, LogEv::PendingIn { denied: true, .. } | LogEv::EstIn { denied: true, .. })) {
                denied_inbound[w] = true;
            }
        } else if entries.iter().any(|(_, e)| matches!(e, LogEv::EstIn { denied: true, .. })) {
            denied_inbound[w] = true;
        }
        for n in new {
            if let Some(old) = allocs.iter().find(|o| o.2 == n.2) {
                let same = if old.1 == n.1 { "same swarm" } else { "other swarm" };
                return Err(format!(
                    "swarm-id-reused {} after {} ({same}, {many}) :: id {} assigned to {} #{} of swarm {} was already assigned to {} of swarm {}; actions {:?}, deny masks {masks:?}",
                    n.0,
                    old.0,
                    n.2,
                    n.0,
                    step,
                    n.1,
                    old.0,
                    old.1,
                    seq.iter().map(|(w, x)| format!("{w}:{}", SACTS[*x])).collect::<Vec<_>>()
                ));
            }
            allocs.push(n);
        }
        for (_, e) in &entries {
            if let Some(c) = log_cid(e) {
                if !allocs.iter().any(|o| o.2 == c && o.1 == w) {
                    return Err(format!("swarm-unknown-id ({many}) :: behaviour of swarm {w} saw id {c} in {e:?} which no Incoming / dial action of that swarm was assigned"));
                }
            }
        }
    }
    stat.allocations = allocs.len();
    Ok(stat)
}

fn masks_single_field() -> Vec<DenyMask> {
    let mut v = vec![DenyMask::default()];
    for d in [Deny::Always, Deny::Odd, Deny::Even] {
        v.push(DenyMask { pending_in: d, ..Default::default() });
        v.push(DenyMask { pending_out: d, ..Default::default() });
        v.push(DenyMask { est_in: d, ..Default::default() });
        v.push(DenyMask { est_out: d, ..Default::default() });
    }
    v
}
fn masks_all() -> Vec<DenyMask> {
    let ds = [Deny::Never, Deny::Always, Deny::Odd, Deny::Even];
    let mut v = Vec::new();
    for a_ in ds {
        for b in ds {
            for c in ds {
                for d in ds {
                    v.push(DenyMask { pending_in: a_, pending_out: b, est_in: c, est_out: d });
                }
            }
        }
    }
    v
}

fn swarm_run_one(masks: &[DenyMask], seq: &[(usize, usize)], out: &mut Outcome, counters: &mut (u64, u64)) {
    out.evaluations += 1;
    out.traces += 1;
    let r = mc::catch(|| swarm_case(masks, seq)).unwrap_or_else(|p| Err(format!("panic at {} :: {p}", mc::shim::last_panic_loc().unwrap_or_default())));
    match r {
        Ok(st) => {
            if st.allocations >= 2 {
                counters.0 += 1;
                out.nontrivial(&format!("{masks:?}{seq:?}"));
            }
            if st.denied_inbound_then_incoming {
                counters.1 += 1;
            }
        }
        Err(m) => out.violation(mc::bfs::signature_of(&m), m, json!({"part": "swarm", "masks": masks, "seq": seq})),
    }
}

fn swarm_part(ctx: &Ctx) -> Outcome {
    let (len1, len_all, len2) = (ctx.tier.pick(5, 6), ctx.tier.pick(3, 4), ctx.tier.pick(4, 5));
    let single = masks_single_field();
    let all = masks_all();
    mc::workers(ctx, 16, |ctx| {
        let mut out = Outcome::default();
        let mut counters = (0u64, 0u64);
        let mut idx = 0u64;
        // one swarm, single-field masks, long sequences
        for m in &single {
            mc::enumerate::sequences_upto(5, len1, |s| {
                idx += 1;
                if s.is_empty() || !ctx.mine(idx) {
                    return;
                }
                let seq: Vec<(usize, usize)> = s.iter().map(|&x| (0, x)).collect();
                swarm_run_one(&[*m], &seq, &mut out, &mut counters);
                if idx % 20_011 == 3 {
                    out.sample(json!({"part": "swarm", "mask": m, "actions": s.iter().map(|&x| SACTS[x]).collect::<Vec<_>>()}));
                }
            });
        }
        // one swarm, every combination of deny settings, shorter sequences
        for m in &all {
            mc::enumerate::sequences_upto(5, len_all, |s| {
                idx += 1;
                if s.is_empty() || !ctx.mine(idx) {
                    return;
                }
                let seq: Vec<(usize, usize)> = s.iter().map(|&x| (0, x)).collect();
                swarm_run_one(&[*m], &seq, &mut out, &mut counters);
            });
        }
        // two swarms in the same process
        for m in [DenyMask::default(), DenyMask { pending_in: Deny::Always, ..Default::default() }, DenyMask { pending_in: Deny::Odd, ..Default::default() }, DenyMask { est_in: Deny::Always, ..Default::default() }] {
            mc::enumerate::sequences_upto(10, len2, |s| {
                idx += 1;
                if s.is_empty() || !ctx.mine(idx) {
                    return;
                }
                let seq: Vec<(usize, usize)> = s.iter().map(|&x| (x / 5, x % 5)).collect();
                swarm_run_one(&[m, m], &seq, &mut out, &mut counters);
            });
        }
        out.count("swarm_level_executions_with_two_or_more_allocations", counters.0);
        out.count("swarm_level_executions_incoming_after_denied_inbound", counters.1);
        out
    })
}

pub fn run(ctx: &Ctx) -> Outcome {
    let mut out = Outcome::default();
    if let Some(case) = &ctx.replay {
        if case["part"] == "swarm" {
            out.evaluations = 1;
            let masks: Vec<DenyMask> = serde_json::from_value(case["masks"].clone()).unwrap_or_default();
            let seq: Vec<(usize, usize)> = serde_json::from_value(case["seq"].clone()).unwrap_or_default();
            if let Err(m) = mc::catch(|| swarm_case(&masks, &seq)).unwrap_or_else(|p| Err(format!("panic :: {p}"))) {
                out.violation(mc::bfs::signature_of(&m), m, case.clone());
            }
            return out;
        }
        let t = case["cfg"]["threads"].as_u64().unwrap_or(2) as usize;
        let a = case["cfg"]["allocs"].as_u64().unwrap_or(2) as usize;
        let only: Option<Vec<usize>> = serde_json::from_value(case["op_order"].clone()).ok();
        explore(t, a, only, &mut out);
        out.evaluations = 1;
        return out;
    }
    if ctx.worker.is_some() {
        // worker process of the swarm-level part: skip the shuttle part (done once, in the parent)
        return swarm_part(ctx);
    }
    let mut cfgs = vec![(2usize, 2usize), (2, 3), (3, 2)];
    if !ctx.quick() {
        cfgs.extend([(3, 3), (4, 2)]);
    }
    for (t, a) in cfgs {
        explore(t, a, None, &mut out);
    }
    // part 2 (worker processes; in a worker this call does not return)
    let sw = swarm_part(ctx);
    out.merge(sw);
    if out.get("swarm_level_executions_with_two_or_more_allocations") == 0 || out.get("swarm_level_executions_incoming_after_denied_inbound") == 0 {
        out.machinery("vacuity: swarm-level part never had two allocations / never saw an Incoming after a denied inbound connection");
    }
    if out.get("schedules_with_interleaved_atomic_ops") == 0 {
        out.machinery("vacuity: no schedule interleaved the atomic operations of two threads (scheduling points not effective)");
    }
    out
}
