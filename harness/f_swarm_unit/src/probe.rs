//! Harness components for driving one production `Connection` (through the `VConnection` hook):
//! a scripted muxer, a probe handler with shared state, and a single-task driver.

use kit::pipe::{self, End, Handle, PipeCfg};
use kit::tasks::Flag;
use libp2p_core::muxing::{StreamMuxer, StreamMuxerBox, StreamMuxerEvent};
use libp2p_core::upgrade::{InboundUpgrade, OutboundUpgrade, UpgradeInfo};
use libp2p_swarm::handler::{ConnectionEvent, ConnectionHandler, ConnectionHandlerEvent, FullyNegotiatedInbound, FullyNegotiatedOutbound, ProtocolSupport, ProtocolsChange, SubstreamProtocol};
use libp2p_swarm::verif_swarm_unit::{VConnection, VEvent};
use libp2p_swarm::{ConnectionError, Stream};
use std::collections::{BTreeSet, VecDeque};
use std::convert::Infallible;
use std::io;
use std::pin::Pin;
use std::sync::atomic::{AtomicBool, Ordering::SeqCst};
use std::sync::{Arc, Mutex};
use std::task::{Context, Poll, Waker};
use std::time::Duration;

// ---------------------------------------------------------------------------------------------
// muxer

#[derive(Default)]
pub struct MuxState {
    pub inbound: VecDeque<End>,
    pub outbound: VecDeque<End>,
    pub waker: Option<Waker>,
    pub polls_inbound: u64,
    pub polls_outbound: u64,
    pub closed: bool,
}

pub struct ScriptMuxer(pub Arc<Mutex<MuxState>>);

impl StreamMuxer for ScriptMuxer {
    type Substream = End;
    type Error = io::Error;

    fn poll_inbound(self: Pin<&mut Self>, cx: &mut Context<'_>) -> Poll<Result<End, io::Error>> {
        let mut s = self.0.lock().unwrap();
        s.polls_inbound += 1;
        match s.inbound.pop_front() {
            Some(e) => Poll::Ready(Ok(e)),
            None => {
                s.waker = Some(cx.waker().clone());
                Poll::Pending
            }
        }
    }
    fn poll_outbound(self: Pin<&mut Self>, cx: &mut Context<'_>) -> Poll<Result<End, io::Error>> {
        let mut s = self.0.lock().unwrap();
        s.polls_outbound += 1;
        match s.outbound.pop_front() {
            Some(e) => Poll::Ready(Ok(e)),
            None => {
                s.waker = Some(cx.waker().clone());
                Poll::Pending
            }
        }
    }
    fn poll_close(self: Pin<&mut Self>, _: &mut Context<'_>) -> Poll<Result<(), io::Error>> {
        self.0.lock().unwrap().closed = true;
        Poll::Ready(Ok(()))
    }
    fn poll(self: Pin<&mut Self>, cx: &mut Context<'_>) -> Poll<Result<StreamMuxerEvent, io::Error>> {
        self.0.lock().unwrap().waker = Some(cx.waker().clone());
        Poll::Pending
    }
}

// ---------------------------------------------------------------------------------------------
// upgrade: any of `names`; output = the negotiated `Stream` itself

#[derive(Clone, Debug)]
pub struct ProbeUpgrade {
    pub names: Vec<String>,
}
impl UpgradeInfo for ProbeUpgrade {
    type Info = String;
    type InfoIter = std::vec::IntoIter<String>;
    fn protocol_info(&self) -> Self::InfoIter {
        self.names.clone().into_iter()
    }
}
impl InboundUpgrade<Stream> for ProbeUpgrade {
    type Output = (Stream, String);
    type Error = Infallible;
    type Future = futures::future::Ready<Result<(Stream, String), Infallible>>;
    fn upgrade_inbound(self, s: Stream, info: String) -> Self::Future {
        futures::future::ready(Ok((s, info)))
    }
}
impl OutboundUpgrade<Stream> for ProbeUpgrade {
    type Output = (Stream, String);
    type Error = Infallible;
    type Future = futures::future::Ready<Result<(Stream, String), Infallible>>;
    fn upgrade_outbound(self, s: Stream, info: String) -> Self::Future {
        futures::future::ready(Ok((s, info)))
    }
}

// ---------------------------------------------------------------------------------------------
// handler

pub struct HState {
    pub protocols: Vec<String>,
    pub keep_alive: bool,
    pub local_fold: BTreeSet<String>,
    pub remote_fold: BTreeSet<String>,
    /// Added for a name already in the fold / Removed for a name not in it
    pub redundant: u64,
    pub local_events: u64,
    pub remote_events: u64,
    pub report: VecDeque<ProtocolSupport>,
    /// reports the handler starts emitting as soon as it receives a LocalProtocolsChange event
    /// (i.e. still inside the same `Connection::poll`)
    pub report_on_local: VecDeque<ProtocolSupport>,
    pub want_outbound: u32,
    pub next_request: u32,
    /// negotiated streams in arrival order (None = dropped by the harness)
    pub streams: Vec<Option<Stream>>,
    pub log: Vec<String>,
    pub upgrade_timeout: Duration,
    pub errors: u64,
}

pub struct ProbeHandler(pub Arc<Mutex<HState>>);

impl ConnectionHandler for ProbeHandler {
    type FromBehaviour = String;
    type ToBehaviour = String;
    type InboundProtocol = ProbeUpgrade;
    type OutboundProtocol = ProbeUpgrade;
    type InboundOpenInfo = ();
    type OutboundOpenInfo = u32;

    fn listen_protocol(&self) -> SubstreamProtocol<ProbeUpgrade, ()> {
        let s = self.0.lock().unwrap();
        SubstreamProtocol::new(ProbeUpgrade { names: s.protocols.clone() }, ()).with_timeout(s.upgrade_timeout)
    }
    fn connection_keep_alive(&self) -> bool {
        self.0.lock().unwrap().keep_alive
    }
    fn poll(&mut self, _cx: &mut Context<'_>) -> Poll<ConnectionHandlerEvent<ProbeUpgrade, u32, String>> {
        let mut s = self.0.lock().unwrap();
        if let Some(r) = s.report.pop_front() {
            return Poll::Ready(ConnectionHandlerEvent::ReportRemoteProtocols(r));
        }
        if s.want_outbound > 0 {
            s.want_outbound -= 1;
            let n = s.next_request;
            s.next_request += 1;
            let t = s.upgrade_timeout;
            return Poll::Ready(ConnectionHandlerEvent::OutboundSubstreamRequest { protocol: SubstreamProtocol::new(ProbeUpgrade { names: vec!["/a".into()] }, n).with_timeout(t) });
        }
        Poll::Pending
    }
    fn on_behaviour_event(&mut self, e: String) {
        self.0.lock().unwrap().log.push(format!("behaviour:{e}"));
    }
    fn on_connection_event(&mut self, event: ConnectionEvent<ProbeUpgrade, ProbeUpgrade, (), u32>) {
        let mut s = self.0.lock().unwrap();
        match event {
            ConnectionEvent::FullyNegotiatedInbound(FullyNegotiatedInbound { protocol: (stream, name), .. }) => {
                s.streams.push(Some(stream));
                s.log.push(format!("in:{name}"));
            }
            ConnectionEvent::FullyNegotiatedOutbound(FullyNegotiatedOutbound { protocol: (stream, name), info }) => {
                s.streams.push(Some(stream));
                s.log.push(format!("out{info}:{name}"));
            }
            ConnectionEvent::DialUpgradeError(e) => {
                s.errors += 1;
                let kind = match e.error {
                    libp2p_swarm::StreamUpgradeError::Timeout => "timeout",
                    libp2p_swarm::StreamUpgradeError::NegotiationFailed => "negotiation-failed",
                    libp2p_swarm::StreamUpgradeError::Io(_) => "io",
                    libp2p_swarm::StreamUpgradeError::Apply(_) => "apply",
                };
                s.log.push(format!("dial-upgrade-error{}:{kind}", e.info));
            }
            ConnectionEvent::ListenUpgradeError(_) => {
                s.errors += 1;
                s.log.push("listen-upgrade-error".into());
            }
            ConnectionEvent::LocalProtocolsChange(c) => {
                s.local_events += 1;
                let q: Vec<ProtocolSupport> = s.report_on_local.drain(..).collect();
                s.report.extend(q);
                match c {
                    ProtocolsChange::Added(a) => {
                        for p in a {
                            if !s.local_fold.insert(p.to_string()) {
                                s.redundant += 1;
                            }
                        }
                    }
                    ProtocolsChange::Removed(r) => {
                        for p in r {
                            if !s.local_fold.remove(p.as_ref()) {
                                s.redundant += 1;
                            }
                        }
                    }
                }
            }
            ConnectionEvent::RemoteProtocolsChange(c) => {
                s.remote_events += 1;
                match c {
                    ProtocolsChange::Added(a) => {
                        for p in a {
                            if !s.remote_fold.insert(p.to_string()) {
                                s.redundant += 1;
                            }
                        }
                    }
                    ProtocolsChange::Removed(r) => {
                        for p in r {
                            if !s.remote_fold.remove(p.as_ref()) {
                                s.redundant += 1;
                            }
                        }
                    }
                }
            }
            ConnectionEvent::AddressChange(_) => s.log.push("address-change".into()),
            _ => {}
        }
    }
}

// ---------------------------------------------------------------------------------------------
// driver

/// object-safe view of `VConnection<H>` for any handler type (plain or wrapped)
pub trait ConnDyn {
    fn poll_dyn(&mut self, cx: &mut Context<'_>) -> Poll<Result<String, ConnectionError>>;
}
impl<H: ConnectionHandler> ConnDyn for VConnection<H> {
    fn poll_dyn(&mut self, cx: &mut Context<'_>) -> Poll<Result<String, ConnectionError>> {
        self.poll(cx).map(|r| {
            r.map(|e| match e {
                VEvent::Handler(e) => format!("handler:{e:?}"),
                VEvent::AddressChange(a) => format!("addr:{a}"),
            })
        })
    }
}

/// The probe handler plain or wrapped in one of libp2p-swarm's own handler combinators.
/// `SelectSecond` / `EitherRight`: see `Driver::new_wrapped`.
#[derive(Clone, Copy, Debug, PartialEq, Eq, serde::Serialize, serde::Deserialize)]
pub enum Wrap {
    Plain,
    MapOut,
    /// `probe.select(idle probe)`; the keep-alive flips concern the first (primary) handler
    SelectFirst,
    /// `probe.select(other probe)`; the keep-alive flips concern the SECOND handler, streams the first
    SelectSecond,
    EitherLeft,
    EitherRight,
    /// `ToggleConnectionHandler` obtained from an enabled `Toggle<behaviour>`
    Toggle,
}
pub const WRAPS: [Wrap; 7] = [Wrap::Plain, Wrap::MapOut, Wrap::SelectFirst, Wrap::SelectSecond, Wrap::EitherLeft, Wrap::EitherRight, Wrap::Toggle];

fn map_out_id(e: String) -> String {
    e
}
// (`map_in_event` cannot be instantiated from outside the crate: the method demands
// `Fn(&TNewIn) -> Option<&FromBehaviour>` while `MapInEvent`'s ConnectionHandler impl demands
// `Fn(TNewIn) -> Option<FromBehaviour>`; no stable closure/fn satisfies both.)

/// minimal behaviour handing out one prepared probe handler (to obtain a ToggleConnectionHandler)
struct MiniBeh(Option<ProbeHandler>);
impl libp2p_swarm::NetworkBehaviour for MiniBeh {
    type ConnectionHandler = ProbeHandler;
    type ToSwarm = ();
    fn handle_established_inbound_connection(&mut self, _: libp2p_swarm::ConnectionId, _: libp2p_identity::PeerId, _: &multiaddr::Multiaddr, _: &multiaddr::Multiaddr) -> Result<ProbeHandler, libp2p_swarm::ConnectionDenied> {
        Ok(self.0.take().expect("one handler"))
    }
    fn handle_established_outbound_connection(
        &mut self,
        _: libp2p_swarm::ConnectionId,
        _: libp2p_identity::PeerId,
        _: &multiaddr::Multiaddr,
        _: libp2p_core::Endpoint,
        _: libp2p_core::transport::PortUse,
    ) -> Result<ProbeHandler, libp2p_swarm::ConnectionDenied> {
        Ok(self.0.take().expect("one handler"))
    }
    fn on_swarm_event(&mut self, _: libp2p_swarm::FromSwarm) {}
    fn on_connection_handler_event(&mut self, _: libp2p_identity::PeerId, _: libp2p_swarm::ConnectionId, _: String) {}
    fn poll(&mut self, _: &mut Context<'_>) -> Poll<libp2p_swarm::ToSwarm<(), String>> {
        Poll::Pending
    }
}

pub struct Driver {
    pub conn: Box<dyn ConnDyn>,
    /// state of the primary probe handler (streams, requests, protocol lists, folds)
    pub h: Arc<Mutex<HState>>,
    /// state of the handler whose keep-alive answer the harness flips (= `h` except for
    /// `SelectSecond`)
    pub ka: Arc<Mutex<HState>>,
    pub mux: Arc<Mutex<MuxState>>,
    flag: Arc<Flag>,
    pub polls: u64,
}

pub const FOREVER: Duration = Duration::from_secs(10 * 365 * 86400);

fn hstate(protocols: Vec<String>, keep_alive: bool, upgrade_timeout: Duration) -> Arc<Mutex<HState>> {
    Arc::new(Mutex::new(HState {
        protocols,
        keep_alive,
        local_fold: BTreeSet::new(),
        remote_fold: BTreeSet::new(),
        redundant: 0,
        local_events: 0,
        remote_events: 0,
        report: VecDeque::new(),
        report_on_local: VecDeque::new(),
        want_outbound: 0,
        next_request: 0,
        streams: Vec::new(),
        log: Vec::new(),
        upgrade_timeout,
        errors: 0,
    }))
}

impl Driver {
    pub fn new(protocols: Vec<String>, keep_alive: bool, idle_timeout: Duration, upgrade_timeout: Duration, max_negotiating_inbound: usize) -> Self {
        Self::new_wrapped(Wrap::Plain, protocols, keep_alive, idle_timeout, upgrade_timeout, max_negotiating_inbound)
    }

    pub fn new_wrapped(wrap: Wrap, protocols: Vec<String>, keep_alive: bool, idle_timeout: Duration, upgrade_timeout: Duration, max_negotiating_inbound: usize) -> Self {
        let second_ka = wrap == Wrap::SelectSecond;
        let h = hstate(protocols, keep_alive && !second_ka, upgrade_timeout);
        // the other handler of a select: advertises an unrelated protocol, never asks for streams
        let h2 = hstate(vec!["/z".into()], keep_alive && second_ka, upgrade_timeout);
        let mux = Arc::new(Mutex::new(MuxState::default()));
        let m = StreamMuxerBox::new(ScriptMuxer(mux.clone()));
        let ph = ProbeHandler(h.clone());
        let conn: Box<dyn ConnDyn> = match wrap {
            Wrap::Plain => Box::new(VConnection::new(m, ph, None, max_negotiating_inbound, idle_timeout)),
            Wrap::MapOut => Box::new(VConnection::new(m, ph.map_out_event(map_out_id as fn(String) -> String), None, max_negotiating_inbound, idle_timeout)),
            Wrap::SelectFirst | Wrap::SelectSecond => Box::new(VConnection::new(m, ph.select(ProbeHandler(h2.clone())), None, max_negotiating_inbound, idle_timeout)),
            Wrap::EitherLeft => Box::new(VConnection::new(m, libp2p_swarm::derive_prelude::Either::<ProbeHandler, ProbeHandler>::Left(ph), None, max_negotiating_inbound, idle_timeout)),
            Wrap::EitherRight => Box::new(VConnection::new(m, libp2p_swarm::derive_prelude::Either::<ProbeHandler, ProbeHandler>::Right(ph), None, max_negotiating_inbound, idle_timeout)),
            Wrap::Toggle => {
                use libp2p_swarm::NetworkBehaviour;
                let mut t = libp2p_swarm::behaviour::toggle::Toggle::from(Some(MiniBeh(Some(ph))));
                let a: multiaddr::Multiaddr = "/memory/1".parse().unwrap();
                let th = t.handle_established_inbound_connection(libp2p_swarm::ConnectionId::new_unchecked(1), kit::ids::peer(1), &a, &a).expect("toggle handler");
                Box::new(VConnection::new(m, th, None, max_negotiating_inbound, idle_timeout))
            }
        };
        let ka = if second_ka { h2 } else { h.clone() };
        Driver { conn, h, ka, mux, flag: Arc::new(Flag(AtomicBool::new(false))), polls: 0 }
    }

    /// Poll the connection (as its task would, whenever woken) until it is pending with no
    /// wake-up outstanding. Returns the events it produced, or the error that ends it.
    pub fn run(&mut self) -> Result<Vec<String>, ConnectionError> {
        let waker = futures::task::waker(self.flag.clone());
        let mut cx = Context::from_waker(&waker);
        let mut evs = Vec::new();
        for _ in 0..10_000 {
            self.flag.0.store(false, SeqCst);
            self.polls += 1;
            match self.conn.poll_dyn(&mut cx) {
                Poll::Ready(Ok(e)) => evs.push(e),
                Poll::Ready(Err(e)) => return Err(e),
                Poll::Pending => {
                    if !self.flag.0.load(SeqCst) {
                        return Ok(evs);
                    }
                }
            }
        }
        panic!("connection task livelock: still runnable after 10000 polls");
    }

    /// queue an inbound substream at the muxer; returns the remote end's handle
    pub fn open_inbound(&mut self) -> (End, Handle) {
        let (local, remote) = pipe::pair(PipeCfg::default());
        let hd = remote.handle();
        self.mux.lock().unwrap().inbound.push_back(local);
        (remote, hd)
    }
    /// let the muxer grant one outbound substream
    pub fn grant_outbound(&mut self) -> (End, Handle) {
        let (local, remote) = pipe::pair(PipeCfg::default());
        let hd = remote.handle();
        self.mux.lock().unwrap().outbound.push_back(local);
        (remote, hd)
    }
}

/// multistream-select wire messages (length-prefixed lines)
pub fn ms_msg(s: &str) -> Vec<u8> {
    let mut v = vec![(s.len() + 1) as u8];
    v.extend_from_slice(s.as_bytes());
    v.push(b'\n');
    v
}
pub const MS_HEADER: &str = "/multistream/1.0.0";
