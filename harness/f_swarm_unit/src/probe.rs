//! Harness components for driving one production `Connection` (through the `VConnection` hook):
//! a scripted muxer, a probe handler with shared state, and a single-task driver.

use kit::pipe::{self, End, Handle, PipeCfg};
use kit::tasks::Flag;
use libp2p_core::muxing::{StreamMuxer, StreamMuxerBox, StreamMuxerEvent};
use libp2p_core::upgrade::{InboundUpgrade, OutboundUpgrade, UpgradeInfo};
use libp2p_swarm::handler::{ConnectionEvent, ConnectionHandler, ConnectionHandlerEvent, FullyNegotiatedInbound, FullyNegotiatedOutbound, ProtocolSupport, ProtocolsChange, SubstreamProtocol};
use libp2p_swarm::verif_swarm_unit::{VConnection, VEvent};
use libp2p_swarm::{ConnectionError, Stream};
use std::collections::{BTreeSet, VecDeque};
use std::convert::Infallible;
use std::io;
use std::pin::Pin;
use std::sync::atomic::{AtomicBool, Ordering::SeqCst};
use std::sync::{Arc, Mutex};
use std::task::{Context, Poll, Waker};
use std::time::Duration;

// ---------------------------------------------------------------------------------------------
// muxer

#[derive(Default)]
pub struct MuxState {
    pub inbound: VecDeque<End>,
    pub outbound: VecDeque<End>,
    pub waker: Option<Waker>,
    pub polls_inbound: u64,
    pub polls_outbound: u64,
    pub closed: bool,
}

pub struct ScriptMuxer(pub Arc<Mutex<MuxState>>);

impl StreamMuxer for ScriptMuxer {
    type Substream = End;
    type Error = io::Error;

    fn poll_inbound(self: Pin<&mut Self>, cx: &mut Context<'_>) -> Poll<Result<End, io::Error>> {
        let mut s = self.0.lock().unwrap();
        s.polls_inbound += 1;
        match s.inbound.pop_front() {
            Some(e) => Poll::Ready(Ok(e)),
            None => {
                s.waker = Some(cx.waker().clone());
                Poll::Pending
            }
        }
    }
    fn poll_outbound(self: Pin<&mut Self>, cx: &mut Context<'_>) -> Poll<Result<End, io::Error>> {
        let mut s = self.0.lock().unwrap();
        s.polls_outbound += 1;
        match s.outbound.pop_front() {
            Some(e) => Poll::Ready(Ok(e)),
            None => {
                s.waker = Some(cx.waker().clone());
                Poll::Pending
            }
        }
    }
    fn poll_close(self: Pin<&mut Self>, _: &mut Context<'_>) -> Poll<Result<(), io::Error>> {
        self.0.lock().unwrap().closed = true;
        Poll::Ready(Ok(()))
    }
    fn poll(self: Pin<&mut Self>, cx: &mut Context<'_>) -> Poll<Result<StreamMuxerEvent, io::Error>> {
        self.0.lock().unwrap().waker = Some(cx.waker().clone());
        Poll::Pending
    }
}

// ---------------------------------------------------------------------------------------------
// upgrade: any of `names`; output = the negotiated `Stream` itself

#[derive(Clone, Debug)]
pub struct ProbeUpgrade {
    pub names: Vec<String>,
}
impl UpgradeInfo for ProbeUpgrade {
    type Info = String;
    type InfoIter = std::vec::IntoIter<String>;
    fn protocol_info(&self) -> Self::InfoIter {
        self.names.clone().into_iter()
    }
}
impl InboundUpgrade<Stream> for ProbeUpgrade {
    type Output = (Stream, String);
    type Error = Infallible;
    type Future = futures::future::Ready<Result<(Stream, String), Infallible>>;
    fn upgrade_inbound(self, s: Stream, info: String) -> Self::Future {
        futures::future::ready(Ok((s, info)))
    }
}
impl OutboundUpgrade<Stream> for ProbeUpgrade {
    type Output = (Stream, String);
    type Error = Infallible;
    type Future = futures::future::Ready<Result<(Stream, String), Infallible>>;
    fn upgrade_outbound(self, s: Stream, info: String) -> Self::Future {
        futures::future::ready(Ok((s, info)))
    }
}

// ---------------------------------------------------------------------------------------------
// handler

pub struct HState {
    pub protocols: Vec<String>,
    pub keep_alive: bool,
    pub local_fold: BTreeSet<String>,
    pub remote_fold: BTreeSet<String>,
    /// Added for a name already in the fold / Removed for a name not in it
    pub redundant: u64,
    pub local_events: u64,
    pub remote_events: u64,
    pub report: VecDeque<ProtocolSupport>,
    /// reports the handler starts emitting as soon as it receives a LocalProtocolsChange event
    /// (i.e. still inside the same `Connection::poll`)
    pub report_on_local: VecDeque<ProtocolSupport>,
    pub want_outbound: u32,
    pub next_request: u32,
    /// negotiated streams in arrival order (None = dropped by the harness)
    pub streams: Vec<Option<Stream>>,
    pub log: Vec<String>,
    pub upgrade_timeout: Duration,
    pub errors: u64,
}

pub struct ProbeHandler(pub Arc<Mutex<HState>>);

impl ConnectionHandler for ProbeHandler {
    type FromBehaviour = String;
    type ToBehaviour = String;
    type InboundProtocol = ProbeUpgrade;
    type OutboundProtocol = ProbeUpgrade;
    type InboundOpenInfo = ();
    type OutboundOpenInfo = u32;

    fn listen_protocol(&self) -> SubstreamProtocol<ProbeUpgrade, ()> {
        let s = self.0.lock().unwrap();
        SubstreamProtocol::new(ProbeUpgrade { names: s.protocols.clone() }, ()).with_timeout(s.upgrade_timeout)
    }
    fn connection_keep_alive(&self) -> bool {
        self.0.lock().unwrap().keep_alive
    }
    fn poll(&mut self, _cx: &mut Context<'_>) -> Poll<ConnectionHandlerEvent<ProbeUpgrade, u32, String>> {
        let mut s = self.0.lock().unwrap();
        if let Some(r) = s.report.pop_front() {
            return Poll::Ready(ConnectionHandlerEvent::ReportRemoteProtocols(r));
        }
        if s.want_outbound > 0 {
            s.want_outbound -= 1;
            let n = s.next_request;
            s.next_request += 1;
            let t = s.upgrade_timeout;
            return Poll::Ready(ConnectionHandlerEvent::OutboundSubstreamRequest { protocol: SubstreamProtocol::new(ProbeUpgrade { names: vec!["/a".into()] }, n).with_timeout(t) });
        }
        Poll::Pending
    }
    fn on_behaviour_event(&mut self, e: String) {
        self.0.lock().unwrap().log.push(format!("behaviour:{e}"));
    }
    fn on_connection_event(&mut self, event: ConnectionEvent<ProbeUpgrade, ProbeUpgrade, (), u32>) {
        let mut s = self.0.lock().unwrap();
        match event {
            ConnectionEvent::FullyNegotiatedInbound(FullyNegotiatedInbound { protocol: (stream, name), .. }) => {
                s.streams.push(Some(stream));
                s.log.push(format!("in:{name}"));
            }
            ConnectionEvent::FullyNegotiatedOutbound(FullyNegotiatedOutbound { protocol: (stream, name), info }) => {
                s.streams.push(Some(stream));
                s.log.push(format!("out{info}:{name}"));
            }
            ConnectionEvent::DialUpgradeError(e) => {
                s.errors += 1;
                let kind = match e.error {
                    libp2p_swarm::StreamUpgradeError::Timeout => "timeout",
                    libp2p_swarm::StreamUpgradeError::NegotiationFailed => "negotiation-failed",
                    libp2p_swarm::StreamUpgradeError::Io(_) => "io",
                    libp2p_swarm::StreamUpgradeError::Apply(_) => "apply",
                };
                s.log.push(format!("dial-upgrade-error{}:{kind}", e.info));
            }
            ConnectionEvent::ListenUpgradeError(_) => {
                s.errors += 1;
                s.log.push("listen-upgrade-error".into());
            }
            ConnectionEvent::LocalProtocolsChange(c) => {
                s.local_events += 1;
                let q: Vec<ProtocolSupport> = s.report_on_local.drain(..).collect();
                s.report.extend(q);
                match c {
                    ProtocolsChange::Added(a) => {
                        for p in a {
                            if !s.local_fold.insert(p.to_string()) {
                                s.redundant += 1;
                            }
                        }
                    }
                    ProtocolsChange::Removed(r) => {
                        for p in r {
                            if !s.local_fold.remove(p.as_ref()) {
                                s.redundant += 1;
                            }
                        }
                    }
                }
            }
            ConnectionEvent::RemoteProtocolsChange(c) => {
                s.remote_events += 1;
                match c {
                    ProtocolsChange::Added(a) => {
                        for p in a {
                            if !s.remote_fold.insert(p.to_string()) {
                                s.redundant += 1;
                            }
                        }
                    }
                    ProtocolsChange::Removed(r) => {
                        for p in r {
                            if !s.remote_fold.remove(p.as_ref()) {
                                s.redundant += 1;
                            }
                        }
                    }
                }
            }
            ConnectionEvent::AddressChange(_) => s.log.push("address-change".into()),
            _ => {}
        }
    }
}

// ---------------------------------------------------------------------------------------------
// driver

pub struct Driver {
    pub conn: VConnection<ProbeHandler>,
    pub h: Arc<Mutex<HState>>,
    pub mux: Arc<Mutex<MuxState>>,
    flag: Arc<Flag>,
    pub polls: u64,
}

pub const FOREVER: Duration = Duration::from_secs(10 * 365 * 86400);

impl Driver {
    pub fn new(protocols: Vec<String>, keep_alive: bool, idle_timeout: Duration, upgrade_timeout: Duration, max_negotiating_inbound: usize) -> Self {
        let h = Arc::new(Mutex::new(HState {
            protocols,
            keep_alive,
            local_fold: BTreeSet::new(),
            remote_fold: BTreeSet::new(),
            redundant: 0,
            local_events: 0,
            remote_events: 0,
            report: VecDeque::new(),
            report_on_local: VecDeque::new(),
            want_outbound: 0,
            next_request: 0,
            streams: Vec::new(),
            log: Vec::new(),
            upgrade_timeout,
            errors: 0,
        }));
        let mux = Arc::new(Mutex::new(MuxState::default()));
        let conn = VConnection::new(StreamMuxerBox::new(ScriptMuxer(mux.clone())), ProbeHandler(h.clone()), None, max_negotiating_inbound, idle_timeout);
        Driver { conn, h, mux, flag: Arc::new(Flag(AtomicBool::new(false))), polls: 0 }
    }

    /// Poll the connection (as its task would, whenever woken) until it is pending with no
    /// wake-up outstanding. Returns the events it produced, or the error that ends it.
    pub fn run(&mut self) -> Result<Vec<String>, ConnectionError> {
        let waker = futures::task::waker(self.flag.clone());
        let mut cx = Context::from_waker(&waker);
        let mut evs = Vec::new();
        for _ in 0..10_000 {
            self.flag.0.store(false, SeqCst);
            self.polls += 1;
            match self.conn.poll(&mut cx) {
                Poll::Ready(Ok(VEvent::Handler(e))) => evs.push(format!("handler:{e}")),
                Poll::Ready(Ok(VEvent::AddressChange(a))) => evs.push(format!("addr:{a}")),
                Poll::Ready(Err(e)) => return Err(e),
                Poll::Pending => {
                    if !self.flag.0.load(SeqCst) {
                        return Ok(evs);
                    }
                }
            }
        }
        panic!("connection task livelock: still runnable after 10000 polls");
    }

    /// queue an inbound substream at the muxer; returns the remote end's handle
    pub fn open_inbound(&mut self) -> (End, Handle) {
        let (local, remote) = pipe::pair(PipeCfg::default());
        let hd = remote.handle();
        self.mux.lock().unwrap().inbound.push_back(local);
        (remote, hd)
    }
    /// let the muxer grant one outbound substream
    pub fn grant_outbound(&mut self) -> (End, Handle) {
        let (local, remote) = pipe::pair(PipeCfg::default());
        let hd = remote.handle();
        self.mux.lock().unwrap().outbound.push_back(local);
        (remote, hd)
    }
}

/// multistream-select wire messages (length-prefixed lines)
pub fn ms_msg(s: &str) -> Vec<u8> {
    let mut v = vec![(s.len() + 1) as u8];
    v.extend_from_slice(s.as_bytes());
    v.push(b'\n');
    v
}
pub const MS_HEADER: &str = "/multistream/1.0.0";
