//! C10 — idle connections close only when truly idle (E2: BFS over action histories of one
//! production `Connection`, hook `VConnection`, over a scripted muxer + probe handler on the
//! virtual clock, against an abstract model of the four keep-alive reasons).
//!
//! Oracle:
//!  * a held stream counts as active until it is dropped or marked ignore_for_keep_alive; closing
//!    its write half (`close()`) while keeping it (to read the answer) does not end it;
//!  * safety: `Err(KeepAliveTimeout)` is returned only in a state in which there is no active
//!    stream (not marked ignore_for_keep_alive), no stream negotiating (inbound or outbound), no
//!    outstanding outbound stream request and the handler does not ask for keep-alive, and in
//!    which all that has been the case for >= idle_timeout of virtual time;
//!  * liveness (weak, the statement gives no upper bound): after an advance of 10 x 4 s in an idle
//!    state the connection must have returned KeepAliveTimeout;
//!  * any other connection error is unexpected.
//! Every action is followed by polling the connection task to quiescence (handler state changes
//! happen inside the connection task in production, which is polled again afterwards).

use crate::probe::{ms_msg, Driver, Wrap, FOREVER, MS_HEADER, WRAPS};
use kit::pipe::{End, Handle};
use libp2p_swarm::{verif_delay, ConnectionError};
use mc::bfs::{self, System};
use mc::{json, Ctx, Meta, Outcome, Value};
use serde::{Deserialize, Serialize};
use std::sync::atomic::{AtomicU64, Ordering::Relaxed};
use std::time::{Duration, Instant};

pub const META: Meta = Meta {
    level: "model_checking",
    rule: "BFS over all histories (depth 8 quick / 11 thorough) of: open inbound stream (<=2), complete / abort its negotiation, handler requests outbound stream (<=2), muxer grants it, complete / abort its negotiation, drop a negotiated stream, mark it ignore_for_keep_alive, close its write half while still holding it, flip the handler's keep-alive, advance the virtual clock by 2 s / 4 s / 40 s; idle_timeout 4 s and, separately, 0 s; the probe handler plain and wrapped in libp2p-swarm's own combinators: map_out_event, select (keep-alive asked by the first / by the second handler), Either::Left / Right, ToggleConnectionHandler. States deduplicated on the abstract model (per-stream status, counts, keep-alive, idle-for) + the implementation's observable projection (handler log, held streams, live timer deadlines relative to now, muxer queues). Non-trivial = states with at least one stream / request / negotiation ever created.",
    explanation: "Each step runs the production Connection::poll to quiescence and compares its result with the model (safety on every step, liveness after the 40 s advance); un-deduplicated DFS companion at smaller depth.",
    assumptions: &["every action is followed by a poll of the connection task", "stream-upgrade timeouts are set beyond the horizon (only the idle timer is explored)", "multistream-select negotiation is completed by injecting the remote's messages in one piece"],
};

const U: Duration = Duration::from_secs(2);

#[derive(Clone, Debug, Serialize, Deserialize, PartialEq)]
pub enum Act {
    OpenIn,
    FinishIn(u8),
    AbortIn(u8),
    ReqOut,
    Grant,
    FinishOut(u8),
    AbortOut(u8),
    Drop(u8),
    Ignore(u8),
    /// the owner closes the WRITE half (`AsyncWrite::poll_close` to completion) but keeps holding
    /// the stream (e.g. to read the answer): still an active stream
    CloseWrite(u8),
    KeepAlive(bool),
    /// advance the virtual clock by 2 s x {1, 2, 20}
    Adv(u8),
}

#[derive(Clone, Debug, PartialEq)]
struct StreamM {
    alive: bool,
    ignored: bool,
    write_closed: bool,
}

static CLOSES: AtomicU64 = AtomicU64::new(0);
static CLOSES_AFTER_ACTIVITY: AtomicU64 = AtomicU64::new(0);
static BUSY_AT_DEADLINE: AtomicU64 = AtomicU64::new(0);

pub struct Sys {
    d: Driver,
    t: Duration,
    neg_in: Vec<(End, Handle)>,
    neg_out: Vec<(End, Handle)>,
    /// remote ends of negotiated streams (kept open)
    remotes: Vec<End>,
    req_out: u32,
    streams: Vec<StreamM>,
    keep_alive: bool,
    idle_since: Option<Instant>,
    closed: bool,
    opened_in: u8,
    requested_out: u8,
    ever_busy: bool,
    /// first deadline at which the original idle timer would have fired (for the vacuity guard)
    err: Option<String>,
}

impl Sys {
    pub fn new(idle_timeout_s: u64, wrap: Wrap) -> Self {
        mc::vclock::reset();
        verif_delay::reset_registry();
        let t = Duration::from_secs(idle_timeout_s);
        let keep_alive = idle_timeout_s == 0;
        let d = Driver::new_wrapped(wrap, vec!["/a".into()], keep_alive, t, FOREVER, 4);
        let mut s = Sys { d, t, neg_in: vec![], neg_out: vec![], remotes: vec![], req_out: 0, streams: vec![], keep_alive, idle_since: None, closed: false, opened_in: 0, requested_out: 0, ever_busy: keep_alive, err: None };
        s.settle();
        match s.d.run() {
            Ok(_) => {}
            Err(e) => s.err = Some(format!("unexpected-error-at-creation :: {e}")),
        }
        s
    }
    fn reasons(&self) -> Vec<&'static str> {
        let mut r = Vec::new();
        if self.keep_alive {
            r.push("handler-keep-alive");
        }
        if !self.neg_in.is_empty() {
            r.push("negotiating-inbound");
        }
        if !self.neg_out.is_empty() {
            r.push("negotiating-outbound");
        }
        if self.req_out > 0 {
            r.push("outbound-request-outstanding");
        }
        if self.streams.iter().any(|s| s.alive && !s.ignored) {
            r.push("active-stream");
        }
        r
    }
    /// update idle_since after the model changed
    fn settle(&mut self) {
        if self.reasons().is_empty() {
            if self.idle_since.is_none() {
                self.idle_since = Some(Instant::now());
            }
        } else {
            self.idle_since = None;
            self.ever_busy = true;
        }
    }
    fn idle_for(&self) -> Option<Duration> {
        self.idle_since.map(|s| Instant::now() - s)
    }
    fn timers(&self) -> Vec<u128> {
        let now = Instant::now();
        verif_delay::pending_deadlines().into_iter().filter(|d| *d < now + Duration::from_secs(365 * 86400)).map(|d| d.saturating_duration_since(now).as_millis()).collect()
    }
}

impl System for Sys {
    type Action = Act;
    fn actions(&self) -> Vec<Act> {
        if self.closed {
            return vec![];
        }
        let mut v = Vec::new();
        if self.opened_in < 2 {
            v.push(Act::OpenIn);
        }
        for k in 0..self.neg_in.len() as u8 {
            v.push(Act::FinishIn(k));
            v.push(Act::AbortIn(k));
        }
        if self.requested_out < 2 {
            v.push(Act::ReqOut);
        }
        if self.req_out > 0 {
            v.push(Act::Grant);
        }
        for k in 0..self.neg_out.len() as u8 {
            v.push(Act::FinishOut(k));
            v.push(Act::AbortOut(k));
        }
        for (k, s) in self.streams.iter().enumerate() {
            if s.alive {
                v.push(Act::Drop(k as u8));
                if !s.ignored {
                    v.push(Act::Ignore(k as u8));
                }
                if !s.write_closed {
                    v.push(Act::CloseWrite(k as u8));
                }
            }
        }
        v.push(Act::KeepAlive(!self.keep_alive));
        v.extend([Act::Adv(0), Act::Adv(1), Act::Adv(2)]);
        v
    }
    fn step(&mut self, a: &Act) -> Result<(), String> {
        if let Some(e) = self.err.take() {
            return Err(e);
        }
        let streams_before = self.d.h.lock().unwrap().streams.len();
        let errors_before = self.d.h.lock().unwrap().errors;
        let mut expect_new_stream = false;
        let mut expect_error = 0;
        let idle_before_advance = self.idle_since.is_some();
        match a {
            Act::OpenIn => {
                let p = self.d.open_inbound();
                self.neg_in.push(p);
                self.opened_in += 1;
            }
            Act::FinishIn(k) => {
                let (end, h) = self.neg_in.remove(*k as usize);
                let mut m = ms_msg(MS_HEADER);
                m.extend(ms_msg("/a"));
                h.inject(false, &m);
                self.remotes.push(end);
                self.streams.push(StreamM { alive: true, ignored: false, write_closed: false });
                expect_new_stream = true;
            }
            Act::AbortIn(k) => {
                let (end, _h) = self.neg_in.remove(*k as usize);
                drop(end);
            }
            Act::ReqOut => {
                self.d.h.lock().unwrap().want_outbound += 1;
                self.req_out += 1;
                self.requested_out += 1;
            }
            Act::Grant => {
                let p = self.d.grant_outbound();
                self.neg_out.push(p);
                self.req_out -= 1;
            }
            Act::FinishOut(k) => {
                let (end, h) = self.neg_out.remove(*k as usize);
                let mut m = ms_msg(MS_HEADER);
                m.extend(ms_msg("/a"));
                h.inject(false, &m);
                self.remotes.push(end);
                self.streams.push(StreamM { alive: true, ignored: false, write_closed: false });
                expect_new_stream = true;
            }
            Act::AbortOut(k) => {
                let (end, _h) = self.neg_out.remove(*k as usize);
                drop(end);
                expect_error = 1;
            }
            Act::Drop(k) => {
                let s = self.d.h.lock().unwrap().streams[*k as usize].take();
                drop(s);
                self.streams[*k as usize].alive = false;
            }
            Act::Ignore(k) => {
                if let Some(s) = self.d.h.lock().unwrap().streams[*k as usize].as_mut() {
                    s.ignore_for_keep_alive();
                }
                self.streams[*k as usize].ignored = true;
            }
            Act::CloseWrite(k) => {
                let mut st = self.d.h.lock().unwrap().streams[*k as usize].take();
                if let Some(stream) = st.as_mut() {
                    use futures::AsyncWriteExt;
                    match kit::tasks::run_ready(stream.close(), 16) {
                        Some(Ok(())) => {}
                        other => return Err(format!("harness-desync close :: closing the write half of stream {k} gave {other:?}")),
                    }
                }
                self.d.h.lock().unwrap().streams[*k as usize] = st;
                self.streams[*k as usize].write_closed = true;
            }
            Act::KeepAlive(b) => {
                self.d.ka.lock().unwrap().keep_alive = *b;
                self.keep_alive = *b;
            }
            Act::Adv(i) => {
                mc::vclock::advance(U * [1u32, 2, 20][*i as usize]);
                verif_delay::fire_due();
            }
        }
        self.settle();
        let reasons = self.reasons();
        let r = self.d.run();
        match r {
            Err(ConnectionError::KeepAliveTimeout) => {
                self.closed = true;
                CLOSES.fetch_add(1, Relaxed);
                if self.ever_busy {
                    CLOSES_AFTER_ACTIVITY.fetch_add(1, Relaxed);
                }
                if !reasons.is_empty() {
                    return Err(format!("closed-while-busy ({}) :: KeepAliveTimeout after {a:?} at t={:?}", reasons.join("+"), mc::vclock::elapsed()));
                }
                let idle = self.idle_for().unwrap_or_default();
                if idle < self.t {
                    return Err(format!("closed-early :: KeepAliveTimeout after only {idle:?} of idleness (idle_timeout {:?}) after {a:?} at t={:?}", self.t, mc::vclock::elapsed()));
                }
            }
            Err(e) => {
                self.closed = true;
                return Err(format!("unexpected-connection-error :: {e} after {a:?}"));
            }
            Ok(_) => {
                if matches!(a, Act::Adv(2)) && reasons.is_empty() && idle_before_advance {
                    return Err(format!("not-closed-when-idle :: idle for {:?} (idle_timeout {:?}) and still no KeepAliveTimeout", self.idle_for().unwrap_or_default(), self.t));
                }
                if matches!(a, Act::Adv(_)) && !reasons.is_empty() {
                    BUSY_AT_DEADLINE.fetch_add(1, Relaxed);
                }
            }
        }
        // harness self-checks (the model's view of streams must match the handler's)
        let h = self.d.h.lock().unwrap();
        if !self.closed {
            if expect_new_stream != (h.streams.len() == streams_before + 1) || (!expect_new_stream && h.streams.len() != streams_before) {
                return Err(format!("harness-desync streams :: after {a:?}: handler holds {} streams (before {streams_before}), log {:?}", h.streams.len(), h.log));
            }
            if h.errors != errors_before + expect_error {
                return Err(format!("harness-desync errors :: after {a:?}: handler saw {} upgrade errors (before {errors_before}), log {:?}", h.errors, h.log));
            }
            let m = self.d.mux.lock().unwrap();
            if !m.inbound.is_empty() || !m.outbound.is_empty() {
                return Err(format!("harness-desync muxer :: after {a:?}: {} inbound / {} outbound substreams not taken", m.inbound.len(), m.outbound.len()));
            }
        }
        Ok(())
    }
    fn canon(&self) -> Vec<u8> {
        let h = self.d.h.lock().unwrap();
        let held: Vec<bool> = h.streams.iter().map(|s| s.is_some()).collect();
        format!(
            "{:?}|{}|{}|{}|{:?}|{}|{:?}|{}|{}|{}||{:?}|{:?}|{:?}|{}",
            self.streams,
            self.neg_in.len(),
            self.neg_out.len(),
            self.req_out,
            self.keep_alive,
            self.closed,
            self.idle_for().map(|d| d.min(self.t + U).as_millis()),
            self.opened_in,
            self.requested_out,
            self.ever_busy,
            held,
            h.log,
            self.timers(),
            h.want_outbound
        )
        .into_bytes()
    }
    fn nontrivial(&self) -> bool {
        self.opened_in > 0 || self.requested_out > 0
    }
}

pub fn run(ctx: &Ctx) -> Outcome {
    let mut out = Outcome::default();
    if let Some(case) = &ctx.replay {
        out.evaluations = 1;
        let t = case["cfg"]["idle_timeout_s"].as_u64().unwrap_or(4);
        let wrap: Wrap = serde_json::from_value(case["cfg"]["wrap"].clone()).unwrap_or(Wrap::Plain);
        if let Err(m) = bfs::replay_history(Sys::new(t, wrap), case) {
            out.violation(bfs::signature_of(&m), m, case.clone());
        }
        return out;
    }
    let depth = ctx.tier.pick(8, 11);
    let ddepth = ctx.tier.pick(5, 6);
    for (wrap, t) in WRAPS.iter().flat_map(|w| [(*w, 4u64), (*w, 0)]) {
        let cfg: Value = json!({"idle_timeout_s": t, "wrap": wrap});
        let (st, v) = bfs::bfs_replay(|| Sys::new(t, wrap), depth, 3_000_000);
        out.count(&format!("states_timeout_{t}s"), st.states);
        bfs::record(&mut out, &cfg, &st, &v);
        let (n, capped, v2) = bfs::dfs_all(|| Sys::new(t, wrap), ddepth, 3_000_000);
        out.count("dfs_companion_sequences", n);
        out.evaluations += n;
        out.traces += n;
        if capped {
            out.caps.push(format!("dfs companion capped at {n} sequences"));
            out.not_exhaustive = true;
        }
        bfs::record(&mut out, &cfg, &Default::default(), &v2);
    }
    let (c, ca, b) = (CLOSES.load(Relaxed), CLOSES_AFTER_ACTIVITY.load(Relaxed), BUSY_AT_DEADLINE.load(Relaxed));
    out.count("keep_alive_timeouts_observed", c);
    out.count("keep_alive_timeouts_after_earlier_activity", ca);
    out.count("clock_advances_survived_while_busy", b);
    if c == 0 || ca == 0 || b == 0 {
        out.machinery("vacuity: no KeepAliveTimeout / none after earlier activity / no clock advance survived while busy");
    }
    out.notes.push(format!("bfs depth {depth}, dfs companion depth {ddepth}, idle_timeout 4 s and 0 s"));
    out
}
