//! C08 — concurrent dialing respects the concurrency factor and reports each failure (E1:
//! exhaustive exploration of fates and completion orders of harness dial futures driven through
//! the production `ConcurrentDial` / `SmartDial` futures, hook `VConcurrentDial`/`VSmartDial`).
//!
//! What is judged (the statement, nothing more):
//!  * non-smart: number of dial futures started and not yet completed <= k after every poll;
//!  * every dial future is started at most once and never polled again after it completed;
//!  * `Ok` is returned iff an attempted dial completed successfully (the returned address is that
//!    of a successful attempted dial; the dial never stays pending with nothing left in flight);
//!  * on `Err` the reported list is a permutation of the attempted addresses; on `Ok` the
//!    accompanying error list contains only attempted-and-failed addresses, each at most once;
//!  * smart: every address attempted at most once (same future-level checks), same result rules.

use crate::probe::{MuxState, ScriptMuxer};
use futures::FutureExt;
use kit::tasks::Flag;
use libp2p_core::muxing::StreamMuxerBox;
use libp2p_core::transport::TransportError;
use libp2p_identity::PeerId;
use libp2p_swarm::verif_delay;
use libp2p_swarm::verif_swarm_unit::{VConcurrentDial, VDialFuture, VDialResult, VSmartDial};
use mc::choice::{self, Chooser};
use mc::{json, Ctx, Meta, Outcome, Value};
use multiaddr::Multiaddr;
use std::future::Future;
use std::num::NonZeroU8;
use std::pin::Pin;
use std::sync::atomic::{AtomicBool, Ordering::SeqCst};
use std::sync::{Arc, Mutex};
use std::task::{Context, Poll, Waker};
use std::time::Instant;

pub const META: Meta = Meta {
    level: "model_checking",
    rule: "non-smart: every (N, k) with N in 1..=5 (quick) / 1..=7 (thorough), k in 1..=min(4, N+1), and for each every execution: at each point where the dial is pending the explorer picks which in-flight transport dial completes next, whether it succeeds or fails, and whether further completions are batched before the dial future is polled again. smart: 4 address sets (3-4 addresses with different ranked delays), choices: advance the virtual clock to the next timer or complete an in-flight dial (ok/err). swarm level: a real Swarm over a transport whose dial futures record their first poll dials N in {3,5} addresses with override_dial_concurrency_factor k in {1,2} placed before / after .addresses(..) and with Config::with_dial_concurrency_factor k in {1,2,8}; attempts fail one at a time (oldest / newest first); dial futures polled-and-unfinished <= effective k after every step, each address dialed exactly once; address selection: every explicit address list of length <=4 (quick) / <=5 (thorough) over {A, B, L=a listen address} with adjacent and non-adjacent repeats x {no behaviour address, behaviour adds A, behaviour adds C, behaviour returns C without extend} x {non-smart, smart}: Transport::dial sees exactly the distinct non-listen addresses in first-occurrence order and the final error lists each once. Non-trivial = distinct executions in which at least one dial failed before the outcome (refill / error aggregation exercised).",
    explanation: "E1 stateless exploration with free branching (all choice sequences, no deviation bound); each execution drives the production future with harness dial futures; oracle evaluated after every poll and on the result.",
    assumptions: &["poll-granularity interleaving on one thread", "a dial future that was polled at least once counts as attempted / in flight until it completes"],
};

struct Sh {
    /// fate decided by the explorer: Some(true) = succeeds
    fate: Vec<Option<bool>>,
    started: Vec<bool>,
    done: Vec<bool>,
    wakers: Vec<Option<Waker>>,
    polled_after_done: u32,
    started_at: Vec<Option<Instant>>,
}
impl Sh {
    fn in_flight(&self) -> Vec<usize> {
        (0..self.fate.len()).filter(|&i| self.started[i] && !self.done[i]).collect()
    }
}

struct DialFut {
    i: usize,
    addr: Multiaddr,
    sh: Arc<Mutex<Sh>>,
}
impl Future for DialFut {
    type Output = (Multiaddr, Result<(PeerId, StreamMuxerBox), TransportError<std::io::Error>>);
    fn poll(self: Pin<&mut Self>, cx: &mut Context<'_>) -> Poll<Self::Output> {
        let mut s = self.sh.lock().unwrap();
        let i = self.i;
        if s.done[i] {
            s.polled_after_done += 1;
            return Poll::Pending;
        }
        if !s.started[i] {
            s.started[i] = true;
            s.started_at[i] = Some(Instant::now());
        }
        match s.fate[i] {
            None => {
                s.wakers[i] = Some(cx.waker().clone());
                Poll::Pending
            }
            Some(true) => {
                s.done[i] = true;
                let m = StreamMuxerBox::new(ScriptMuxer(Arc::new(Mutex::new(MuxState::default()))));
                Poll::Ready((self.addr.clone(), Ok((kit::ids::peer(1), m))))
            }
            Some(false) => {
                s.done[i] = true;
                Poll::Ready((self.addr.clone(), Err(TransportError::Other(std::io::Error::other(format!("refused {i}"))))))
            }
        }
    }
}

fn mk(addrs: &[Multiaddr]) -> (Arc<Mutex<Sh>>, Vec<(Multiaddr, VDialFuture)>) {
    let n = addrs.len();
    let sh = Arc::new(Mutex::new(Sh { fate: vec![None; n], started: vec![false; n], done: vec![false; n], wakers: vec![None; n], polled_after_done: 0, started_at: vec![None; n] }));
    let dials = addrs.iter().enumerate().map(|(i, a)| (a.clone(), DialFut { i, addr: a.clone(), sh: sh.clone() }.boxed())).collect();
    (sh, dials)
}

#[derive(Default, Debug, Clone)]
struct Stat {
    /// the in-flight count reached k while more dials were waiting (non-smart)
    at_limit: bool,
    failures_before_outcome: usize,
    ok: bool,
    attempted: usize,
}

fn judge(addrs: &[Multiaddr], sh: &Sh, res: &VDialResult) -> Result<Stat, String> {
    let idx = |a: &Multiaddr| addrs.iter().position(|x| x == a);
    if sh.polled_after_done > 0 {
        return Err(format!("polled-after-completion :: {} polls of completed dial futures", sh.polled_after_done));
    }
    let attempted: Vec<usize> = (0..addrs.len()).filter(|&i| sh.started[i]).collect();
    let check_errs = |errs: &[(Multiaddr, TransportError<std::io::Error>)], must_be_all: bool| -> Result<(), String> {
        let mut seen = vec![0u32; addrs.len()];
        for (a, _) in errs {
            let Some(i) = idx(a) else { return Err(format!("unknown-address-in-errors :: {a}")) };
            seen[i] += 1;
            if seen[i] > 1 {
                return Err(format!("address-reported-twice :: {a} appears {} times in the errors", seen[i]));
            }
            if !(sh.started[i] && sh.done[i] && sh.fate[i] == Some(false)) {
                return Err(format!("error-for-unfailed-address :: {a} reported as failed (started {}, done {}, fate {:?})", sh.started[i], sh.done[i], sh.fate[i]));
            }
        }
        if must_be_all {
            for &i in &attempted {
                if seen[i] != 1 {
                    return Err(format!("attempted-address-missing-from-errors :: {} attempted but reported {} times; errors {:?}", addrs[i], seen[i], errs.iter().map(|e| e.0.to_string()).collect::<Vec<_>>()));
                }
            }
        }
        Ok(())
    };
    let succeeded: Vec<usize> = attempted.iter().copied().filter(|&i| sh.done[i] && sh.fate[i] == Some(true)).collect();
    match res {
        Ok((a, _, errs)) => {
            let Some(i) = idx(a) else { return Err(format!("ok-with-unknown-address :: {a}")) };
            if !succeeded.contains(&i) {
                return Err(format!("ok-without-success :: Ok({a}) but that dial did not complete successfully (fate {:?}, done {})", sh.fate[i], sh.done[i]));
            }
            check_errs(errs, false)?;
            Ok(Stat { at_limit: false, failures_before_outcome: errs.len(), ok: true, attempted: attempted.len() })
        }
        Err(errs) => {
            if !succeeded.is_empty() {
                return Err(format!("err-despite-success :: Err although {} completed successfully", addrs[succeeded[0]]));
            }
            check_errs(errs, true)?;
            Ok(Stat { at_limit: false, failures_before_outcome: errs.len(), ok: false, attempted: attempted.len() })
        }
    }
}

thread_local! {
    static LAST: std::cell::RefCell<Stat> = std::cell::RefCell::new(Stat::default());
}

/// explorer step while the dial is pending: complete one or more in-flight dials.
/// Returns false if nothing is in flight and undecided.
fn resolve_some(sh: &Arc<Mutex<Sh>>, extra_options: usize) -> Result<usize, String> {
    // returns: 0 = resolved something, k>0 = extra option k chosen
    let mut first = true;
    loop {
        let cands: Vec<usize> = {
            let s = sh.lock().unwrap();
            s.in_flight().into_iter().filter(|&i| s.fate[i].is_none()).collect()
        };
        if cands.is_empty() {
            if first && extra_options == 0 {
                return Err("stuck :: dial future pending but no transport dial is in flight and undecided".into());
            }
            if !first {
                return Ok(0);
            }
        }
        let extra = if first { extra_options } else { 0 };
        let c = choice::choose_l(cands.len() * 2 + extra, 0, "complete");
        if c >= cands.len() * 2 {
            return Ok(c - cands.len() * 2 + 1);
        }
        let (i, ok) = (cands[c / 2], c % 2 == 1);
        let w = {
            let mut s = sh.lock().unwrap();
            s.fate[i] = Some(ok);
            s.wakers[i].take()
        };
        if let Some(w) = w {
            w.wake();
        }
        first = false;
        if cands.len() > 1 && choice::choose_l(2, 0, "batch") == 1 {
            continue;
        }
        return Ok(0);
    }
}

fn concurrent(n: usize, k: u8) -> Result<(), String> {
    let addrs: Vec<Multiaddr> = (0..n).map(|i| format!("/ip4/8.8.8.8/tcp/{}", 1000 + i).parse().unwrap()).collect();
    let (sh, dials) = mk(&addrs);
    let mut cd = VConcurrentDial::new(dials, NonZeroU8::new(k).unwrap());
    let flag = Arc::new(Flag(AtomicBool::new(true)));
    let waker = futures::task::waker(flag.clone());
    let mut cx = Context::from_waker(&waker);
    let mut at_limit = false;
    for _ in 0..1000 {
        flag.0.store(false, SeqCst);
        let r = Pin::new(&mut cd).poll(&mut cx);
        {
            let s = sh.lock().unwrap();
            let inf = s.in_flight().len();
            if inf == k as usize && s.started.iter().any(|b| !*b) {
                at_limit = true;
            }
            if inf > k as usize {
                return Err(format!("in-flight-exceeds-k :: {inf} transport dials in flight with concurrency factor {k} (N={n})"));
            }
        }
        match r {
            Poll::Ready(res) => {
                let s = sh.lock().unwrap();
                let mut st = judge(&addrs, &s, &res)?;
                st.at_limit = at_limit;
                choice::observe(&format!("{st:?} {:?} {:?}", s.fate, s.started));
                LAST.with(|l| *l.borrow_mut() = st);
                return Ok(());
            }
            Poll::Pending => {
                if flag.0.load(SeqCst) {
                    continue;
                }
                resolve_some(&sh, 0)?;
                if !flag.0.load(SeqCst) {
                    return Err("lost-wakeup :: a transport dial completed but the dial future was not woken".into());
                }
            }
        }
    }
    Err("horizon :: dial future still pending after 1000 polls".into())
}

const SMART_SETS: [&[&str]; 4] = [
    &["/ip4/8.8.8.8/udp/1/quic-v1", "/ip4/8.8.8.8/tcp/1", "/ip4/192.168.1.5/tcp/1"],
    &["/ip4/8.8.8.8/tcp/1", "/ip4/8.8.8.8/tcp/2", "/ip4/8.8.8.8/tcp/3", "/ip6/2606:4700::1/tcp/1"],
    &["/ip4/8.8.8.8/udp/1/quic-v1", "/ip4/8.8.8.8/udp/1/webrtc-direct", "/dns/localhost/tcp/1"],
    &["/ip4/8.8.8.8/udp/1/quic-v1", "/ip4/8.8.8.8/udp/2/quic-v1", "/ip4/8.8.8.8/tcp/1", "/ip4/8.8.8.8/tcp/1/p2p-circuit"],
];

fn smart(set: usize) -> Result<(), String> {
    mc::vclock::reset();
    verif_delay::reset_registry();
    let addrs: Vec<Multiaddr> = SMART_SETS[set].iter().map(|s| s.parse().unwrap()).collect();
    let (sh, dials) = mk(&addrs);
    let mut sd = VSmartDial::new(dials);
    let flag = Arc::new(Flag(AtomicBool::new(true)));
    let waker = futures::task::waker(flag.clone());
    let mut cx = Context::from_waker(&waker);
    for _ in 0..1000 {
        flag.0.store(false, SeqCst);
        let r = Pin::new(&mut sd).poll(&mut cx);
        match r {
            Poll::Ready(res) => {
                let s = sh.lock().unwrap();
                let st = judge(&addrs, &s, &res)?;
                if !st.ok && st.attempted != addrs.len() {
                    // all wrappers completed, so every dial must have been attempted
                    return Err(format!("smart-err-without-attempting-all :: attempted {} of {}", st.attempted, addrs.len()));
                }
                choice::observe(&format!("{st:?} {:?} {:?} t={:?}", s.fate, s.started, mc::vclock::elapsed()));
                LAST.with(|l| *l.borrow_mut() = st);
                return Ok(());
            }
            Poll::Pending => {
                if flag.0.load(SeqCst) {
                    continue;
                }
                let now = Instant::now();
                let next_timer = verif_delay::pending_deadlines().into_iter().find(|d| *d > now);
                let extra = if next_timer.is_some() { 1 } else { 0 };
                match resolve_some(&sh, extra)? {
                    0 => {}
                    _ => {
                        let d = next_timer.unwrap();
                        mc::vclock::advance(d - now);
                        verif_delay::fire_due();
                    }
                }
                if !flag.0.load(SeqCst) {
                    return Err("lost-wakeup :: a completion / timer did not wake the dial future".into());
                }
            }
        }
    }
    Err("horizon :: smart dial still pending after 1000 polls".into())
}

fn body(cfg: &Value) -> impl FnMut(&mut Chooser) -> Result<(), String> {
    let cfg = cfg.clone();
    move |ch: &mut Chooser| {
        let cfg = cfg.clone();
        choice::scoped(ch, move || {
            mc::catch(|| match cfg["mode"].as_str() {
                Some("smart") => smart(cfg["set"].as_u64().unwrap_or(0) as usize),
                _ => concurrent(cfg["n"].as_u64().unwrap_or(1) as usize, cfg["k"].as_u64().unwrap_or(1) as u8),
            })
            .unwrap_or_else(|p| Err(format!("panic at {} :: {p}", mc::shim::last_panic_loc().unwrap_or_default())))
        })
    }
}

// ---------------------------------------------------------------------------------------------
// Part 2: the concurrency factor at the Swarm level. A real Swarm (probe behaviour of the
// whole-Swarm family, `Config::without_executor()` so that the pending-connection task runs
// inside `Swarm::poll`) over a transport whose dial futures record when they are first polled:
// the Swarm creates all N dial futures up front (`Transport::dial`), "in flight" = polled and not
// yet completed — the same notion as in part 1. The factor is given either by
// `override_dial_concurrency_factor` (placed before or after `.addresses(..)` in the builder) or
// by `Config::with_dial_concurrency_factor`; attempts are failed one at a time.

use crate::sys::{DenyMask, Probe};
use futures::StreamExt;
use libp2p_core::transport::{DialOpts as TDialOpts, ListenerId, TransportEvent};
use libp2p_core::Transport;
use libp2p_swarm::dial_opts::DialOpts;
use libp2p_swarm::{Swarm, SwarmEvent};

const MODES: [&str; 3] = ["override-before-addresses", "override-after-addresses", "config-factor"];

#[derive(Default)]
struct TSh {
    events: std::collections::VecDeque<(ListenerId, Multiaddr)>,
    addrs: Vec<Multiaddr>,
    started: Vec<bool>,
    done: Vec<bool>,
    fail: Vec<bool>,
    wakers: Vec<Option<Waker>>,
}
struct TFut {
    i: usize,
    sh: Arc<Mutex<TSh>>,
}
impl Future for TFut {
    type Output = Result<(PeerId, StreamMuxerBox), std::io::Error>;
    fn poll(self: Pin<&mut Self>, cx: &mut Context<'_>) -> Poll<Self::Output> {
        let mut s = self.sh.lock().unwrap();
        let i = self.i;
        s.started[i] = true;
        if s.fail[i] {
            s.done[i] = true;
            return Poll::Ready(Err(std::io::Error::other("scripted failure")));
        }
        s.wakers[i] = Some(cx.waker().clone());
        Poll::Pending
    }
}
struct PollTransport(Arc<Mutex<TSh>>);
impl Transport for PollTransport {
    type Output = (PeerId, StreamMuxerBox);
    type Error = std::io::Error;
    type ListenerUpgrade = TFut;
    type Dial = TFut;
    fn listen_on(&mut self, id: ListenerId, addr: Multiaddr) -> Result<(), TransportError<std::io::Error>> {
        self.0.lock().unwrap().events.push_back((id, addr));
        Ok(())
    }
    fn remove_listener(&mut self, _: ListenerId) -> bool {
        false
    }
    fn dial(&mut self, addr: Multiaddr, _: TDialOpts) -> Result<TFut, TransportError<std::io::Error>> {
        let mut s = self.0.lock().unwrap();
        s.addrs.push(addr);
        s.started.push(false);
        s.done.push(false);
        s.fail.push(false);
        s.wakers.push(None);
        Ok(TFut { i: s.addrs.len() - 1, sh: self.0.clone() })
    }
    fn poll(self: Pin<&mut Self>, _: &mut Context<'_>) -> Poll<TransportEvent<TFut, std::io::Error>> {
        match self.0.lock().unwrap().events.pop_front() {
            Some((listener_id, listen_addr)) => Poll::Ready(TransportEvent::NewAddress { listener_id, listen_addr }),
            None => Poll::Pending,
        }
    }
}

/// returns whether the limit was reached with dials still waiting
fn swarm_dial_case(n: usize, mode: usize, k: u8, newest_first: bool) -> Result<bool, String> {
    let sh = Arc::new(Mutex::new(TSh::default()));
    let kk = NonZeroU8::new(k).unwrap();
    let config = libp2p_swarm::Config::without_executor().with_dial_concurrency_factor(if mode == 2 { kk } else { NonZeroU8::new(8).unwrap() });
    let log: crate::sys::Log = Default::default();
    let mut swarm = Swarm::new(PollTransport(sh.clone()).boxed(), Probe::new(0, log, DenyMask::default()), kit::ids::peer(0), config);
    let addrs: Vec<Multiaddr> = (1..=n as u64).map(kit::ids::maddr).collect();
    let p = kit::ids::peer(1);
    let opts = match mode {
        0 => DialOpts::peer_id(p).override_dial_concurrency_factor(kk).addresses(addrs.clone()).build(),
        1 => DialOpts::peer_id(p).addresses(addrs.clone()).override_dial_concurrency_factor(kk).build(),
        _ => DialOpts::peer_id(p).addresses(addrs.clone()).build(),
    };
    swarm.dial(opts).map_err(|e| format!("harness-desync :: dial refused: {e}"))?;
    let flag = Arc::new(Flag(AtomicBool::new(true)));
    let waker = futures::task::waker(flag.clone());
    let mut cx = Context::from_waker(&waker);
    let mut failure_reported = false;
    let mut run = |swarm: &mut Swarm<Probe>, failure_reported: &mut bool| -> Result<(), String> {
        for _ in 0..10_000 {
            if !flag.0.swap(false, SeqCst) {
                return Ok(());
            }
            while let Poll::Ready(Some(e)) = swarm.poll_next_unpin(&mut cx) {
                if let SwarmEvent::OutgoingConnectionError { error: libp2p_swarm::DialError::Transport(errs), .. } = &e {
                    *failure_reported = true;
                    if errs.len() != n {
                        return Err(format!("swarm-error-list-incomplete {} :: {} errors reported for {n} addresses", MODES[mode], errs.len()));
                    }
                }
            }
        }
        Err("horizon :: swarm still runnable after 10000 polls".into())
    };
    let mut at_limit = false;
    for step in 0..=n {
        run(&mut swarm, &mut failure_reported)?;
        let (in_flight, waiting): (Vec<usize>, usize) = {
            let s = sh.lock().unwrap();
            ((0..s.addrs.len()).filter(|&i| s.started[i] && !s.done[i]).collect(), s.started.iter().filter(|b| !**b).count())
        };
        if in_flight.len() > k as usize {
            return Err(format!("swarm-in-flight-exceeds-k {} :: {} transport dials in flight, effective concurrency factor {k} (N={n}, after {step} failures)", MODES[mode], in_flight.len()));
        }
        if in_flight.len() == k as usize && waiting > 0 {
            at_limit = true;
        }
        if in_flight.is_empty() {
            break;
        }
        let pick = if newest_first { *in_flight.last().unwrap() } else { in_flight[0] };
        let w = {
            let mut s = sh.lock().unwrap();
            s.fail[pick] = true;
            s.wakers[pick].take()
        };
        if let Some(w) = w {
            w.wake();
        }
    }
    run(&mut swarm, &mut failure_reported)?;
    let s = sh.lock().unwrap();
    let mut dialed: Vec<String> = s.addrs.iter().map(|d| d.to_string()).collect();
    dialed.sort();
    let mut want: Vec<String> = addrs.iter().map(|m| m.clone().with_p2p(p).unwrap().to_string()).collect();
    want.sort();
    if dialed != want || !s.started.iter().all(|b| *b) {
        return Err(format!("swarm-addresses-not-each-once {} :: transport saw {dialed:?} (started {:?}), expected each of {want:?} once", MODES[mode], s.started));
    }
    if !failure_reported {
        return Err(format!("swarm-no-failure-reported {} :: all {n} attempts failed but no OutgoingConnectionError(Transport)", MODES[mode]));
    }
    Ok(at_limit)
}

// ---------------------------------------------------------------------------------------------
// Part 3: which addresses one Swarm-level dial attempts. The explicit address list is any
// sequence (with adjacent and non-adjacent repeats) over {A, B, L = an address the Swarm listens
// on}; the behaviour may contribute one more address (equal to A / new) through
// `extend_addresses_through_behaviour`, or return one that must be discarded. Every address
// handed to `Transport::dial` must be distinct ("attempted at most once"): the attempted list
// equals the distinct non-listen addresses in first-occurrence order; after failing every attempt
// the OutgoingConnectionError lists each attempted address exactly once. Non-smart and smart.

const EXTRA: [&str; 4] = ["none", "behaviour adds A (extend)", "behaviour adds C (extend)", "behaviour returns C (no extend: discarded)"];

fn strip_p2p(m: &Multiaddr) -> Multiaddr {
    m.iter().filter(|p| !matches!(p, multiaddr::Protocol::P2p(_))).collect()
}

fn swarm_addr_case(list: &[usize], extra: usize, smart: bool) -> Result<usize, String> {
    mc::vclock::reset();
    verif_delay::reset_registry();
    let mode = if smart { "smart" } else { "concurrent" };
    let alpha: [Multiaddr; 4] = [kit::ids::maddr(1), kit::ids::maddr(2), kit::ids::maddr(100), kit::ids::maddr(3)];
    let sh = Arc::new(Mutex::new(TSh::default()));
    let mut config = libp2p_swarm::Config::without_executor();
    if smart {
        config = config.with_smart_dial();
    }
    let log: crate::sys::Log = Default::default();
    let mut probe = Probe::new(0, log, DenyMask::default());
    probe.extra_addrs = match extra {
        1 => vec![alpha[0].clone()],
        2 | 3 => vec![alpha[3].clone()],
        _ => vec![],
    };
    let mut swarm = Swarm::new(PollTransport(sh.clone()).boxed(), probe, kit::ids::peer(0), config);
    let flag = Arc::new(Flag(AtomicBool::new(true)));
    let waker = futures::task::waker(flag.clone());
    let mut cx = Context::from_waker(&waker);
    let mut reported: Option<Vec<Multiaddr>> = None;
    let mut listening = false;
    let mut run = |swarm: &mut Swarm<Probe>, reported: &mut Option<Vec<Multiaddr>>, listening: &mut bool| -> Result<(), String> {
        for _ in 0..10_000 {
            if !flag.0.swap(false, SeqCst) {
                // virtual stagger timers of smart dialing
                let now = Instant::now();
                match verif_delay::pending_deadlines().into_iter().find(|d| *d > now && *d < now + std::time::Duration::from_secs(3600)) {
                    Some(d) => {
                        mc::vclock::advance(d - now);
                        verif_delay::fire_due();
                        if !flag.0.load(SeqCst) {
                            return Ok(());
                        }
                        continue;
                    }
                    None => return Ok(()),
                }
            }
            while let Poll::Ready(Some(e)) = swarm.poll_next_unpin(&mut cx) {
                match e {
                    SwarmEvent::OutgoingConnectionError { error: libp2p_swarm::DialError::Transport(errs), .. } => *reported = Some(errs.iter().map(|e| strip_p2p(&e.0)).collect()),
                    SwarmEvent::NewListenAddr { .. } => *listening = true,
                    _ => {}
                }
            }
        }
        Err("horizon :: swarm still runnable after 10000 polls".into())
    };
    swarm.listen_on(alpha[2].clone()).map_err(|e| format!("harness-desync :: listen_on: {e}"))?;
    run(&mut swarm, &mut reported, &mut listening)?;
    if !listening {
        return Err("harness-desync :: no NewListenAddr".into());
    }
    // expectation
    let mut all: Vec<Multiaddr> = list.iter().map(|&i| alpha[i].clone()).collect();
    if extra == 1 || extra == 2 {
        all.extend(swarm.behaviour().extra_addrs.clone());
    }
    let mut want: Vec<Multiaddr> = Vec::new();
    for m in &all {
        if *m != alpha[2] && !want.contains(m) {
            want.push(m.clone());
        }
    }
    let p = kit::ids::peer(1);
    let b = DialOpts::peer_id(p).addresses(list.iter().map(|&i| alpha[i].clone()).collect());
    let opts = if extra == 1 || extra == 2 { b.extend_addresses_through_behaviour().build() } else { b.build() };
    let r = swarm.dial(opts);
    let detail = format!("explicit list {:?}, {}, {mode}", list.iter().map(|&i| ["A", "B", "L(listen)", "C"][i]).collect::<Vec<_>>(), EXTRA[extra]);
    match (&r, want.is_empty()) {
        (Err(libp2p_swarm::DialError::NoAddresses), true) => {
            if !sh.lock().unwrap().addrs.is_empty() {
                return Err(format!("swarm-dialed-despite-no-addresses {mode} :: {detail}"));
            }
            return Ok(0);
        }
        (Ok(()), false) => {}
        (r, _) => return Err(format!("swarm-dial-result-unexpected {mode} :: dial returned {r:?}, expected addresses {want:?}; {detail}")),
    }
    flag.0.store(true, SeqCst);
    for _ in 0..=all.len() + 1 {
        run(&mut swarm, &mut reported, &mut listening)?;
        let pick = {
            let s = sh.lock().unwrap();
            (0..s.addrs.len()).find(|&i| s.started[i] && !s.done[i])
        };
        let Some(pick) = pick else { break };
        let w = {
            let mut s = sh.lock().unwrap();
            s.fail[pick] = true;
            s.wakers[pick].take()
        };
        if let Some(w) = w {
            w.wake();
        }
    }
    run(&mut swarm, &mut reported, &mut listening)?;
    let dialed: Vec<Multiaddr> = sh.lock().unwrap().addrs.iter().map(strip_p2p).collect();
    for (i, d) in dialed.iter().enumerate() {
        if dialed[..i].contains(d) {
            return Err(format!("swarm-address-attempted-twice {mode} :: {d} handed to Transport::dial twice in one dial: {dialed:?}; {detail}"));
        }
    }
    if dialed != want {
        return Err(format!("swarm-dialed-addresses-mismatch {mode} :: Transport::dial saw {dialed:?}, expected {want:?}; {detail}"));
    }
    let Some(mut rep) = reported else { return Err(format!("swarm-no-failure-reported {mode} :: every attempt failed but no OutgoingConnectionError(Transport); {detail}")) };
    let mut w2 = want.clone();
    rep.sort();
    w2.sort();
    if rep != w2 {
        return Err(format!("swarm-error-list-mismatch {mode} :: errors list {rep:?}, attempted {w2:?} (each must appear exactly once); {detail}"));
    }
    Ok(want.len())
}

fn swarm_addr_part(ctx: &Ctx, out: &mut Outcome) {
    let maxlen = ctx.tier.pick(4, 5);
    let (mut dedup_cases, mut n) = (0u64, 0u64);
    mc::enumerate::sequences_upto(3, maxlen, |list| {
        for extra in 0..4 {
            for smart in [false, true] {
                n += 1;
                out.evaluations += 1;
                out.traces += 1;
                let distinct: std::collections::BTreeSet<usize> = list.iter().copied().collect();
                let repeats = distinct.len() != list.len() || (extra == 1 && list.contains(&0));
                if repeats {
                    dedup_cases += 1;
                    out.nontrivial(&format!("addr{list:?}{extra}{smart}"));
                }
                let case = json!({"part": "swarm-addrs", "list": list, "extra": extra, "smart": smart});
                if let Err(m) = mc::catch(|| swarm_addr_case(list, extra, smart)).unwrap_or_else(|p| Err(format!("panic at {} :: {p}", mc::shim::last_panic_loc().unwrap_or_default()))) {
                    out.violation(mc::bfs::signature_of(&m), m, case);
                }
            }
        }
    });
    out.count("swarm_level_address_lists", n);
    out.count("swarm_level_address_lists_with_repeats", dedup_cases);
    if dedup_cases == 0 {
        out.machinery("vacuity: no address list with repeats was dialed");
    }
}

fn swarm_part(out: &mut Outcome) {
    let mut at_limit = 0u64;
    for n in [3usize, 5] {
        for mode in 0..3 {
            for k in if mode == 2 { vec![1u8, 2, 8] } else { vec![1u8, 2] } {
                for newest_first in [false, true] {
                    out.evaluations += 1;
                    out.traces += 1;
                    out.nontrivial(&format!("swarm{n}{mode}{k}{newest_first}"));
                    let case = json!({"part": "swarm", "n": n, "mode": mode, "k": k, "newest_first": newest_first});
                    match mc::catch(|| swarm_dial_case(n, mode, k, newest_first)).unwrap_or_else(|p| Err(format!("panic at {} :: {p}", mc::shim::last_panic_loc().unwrap_or_default()))) {
                        Ok(l) => at_limit += l as u64,
                        Err(m) => out.violation(mc::bfs::signature_of(&m), m, case),
                    }
                }
            }
        }
    }
    out.count("swarm_level_dials", 2 * (2 * 2 + 2 * 2 + 3 * 2) as u64);
    out.count("swarm_level_dials_at_limit", at_limit);
    if at_limit == 0 {
        out.machinery("vacuity: no swarm-level dial ever had k attempts in flight with addresses still waiting");
    }
}

pub fn run(ctx: &Ctx) -> Outcome {
    let mut out = Outcome::default();
    if let Some(case) = &ctx.replay {
        out.evaluations = 1;
        if case["part"] == "swarm-addrs" {
            let list: Vec<usize> = serde_json::from_value(case["list"].clone()).unwrap_or_default();
            let r = mc::catch(|| swarm_addr_case(&list, case["extra"].as_u64().unwrap_or(0) as usize, case["smart"].as_bool().unwrap_or(false))).unwrap_or_else(|p| Err(format!("panic :: {p}")));
            if let Err(m) = r {
                out.violation(mc::bfs::signature_of(&m), m, case.clone());
            }
            return out;
        }
        if case["part"] == "swarm" {
            let r = mc::catch(|| swarm_dial_case(case["n"].as_u64().unwrap_or(3) as usize, case["mode"].as_u64().unwrap_or(0) as usize, case["k"].as_u64().unwrap_or(1) as u8, case["newest_first"].as_bool().unwrap_or(false)))
                .unwrap_or_else(|p| Err(format!("panic :: {p}")));
            if let Err(m) = r {
                out.violation(mc::bfs::signature_of(&m), m, case.clone());
            }
            return out;
        }
        let choices: Vec<u32> = serde_json::from_value(case["choices"].clone()).unwrap_or_default();
        if let Err(m) = choice::replay(&choices, body(&case["cfg"])) {
            out.violation(format!("{} {}", mc::bfs::signature_of(&m), case["cfg"]["mode"].as_str().unwrap_or("")), m, case.clone());
        }
        return out;
    }
    let maxn = ctx.tier.pick(5, 7);
    let mut cfgs = Vec::new();
    for n in 1..=maxn {
        for k in 1..=4usize.min(n + 1) {
            cfgs.push(json!({"mode": "concurrent", "n": n, "k": k}));
        }
    }
    for s in 0..SMART_SETS.len() {
        cfgs.push(json!({"mode": "smart", "set": s}));
    }
    let (mut with_refill, mut oks, mut errs, mut ok_with_errors, mut at_limit) = (0u64, 0u64, 0u64, 0u64, 0u64);
    for cfg in &cfgs {
        let mut b = body(cfg);
        let salt = mc::report::hash_str(&cfg.to_string());
        let mut k = 0u64;
        let (st, viol) = choice::explore(u32::MAX, 3_000_000, |ch| {
            let r = b(ch);
            if r.is_ok() {
                let l = LAST.with(|l| l.borrow().clone());
                k += 1;
                if l.at_limit {
                    at_limit += 1;
                }
                if l.failures_before_outcome > 0 {
                    with_refill += 1;
                    out.nontrivial_h(salt ^ k.wrapping_mul(0x9e3779b97f4a7c15));
                }
                if l.ok {
                    oks += 1;
                    if l.failures_before_outcome > 0 {
                        ok_with_errors += 1;
                    }
                } else {
                    errs += 1;
                }
            }
            r
        });
        out.add_explore(&st);
        out.count("configs", 1);
        out.sample(json!({"cfg": cfg, "executions": st.executions, "distinct_observations": st.distinct_obs}));
        if let Some((choices, m)) = viol {
            if m.starts_with("NONDETERMINISM") {
                out.machinery(format!("{m} cfg={cfg}"));
            } else {
                out.violation(format!("{} {}", mc::bfs::signature_of(&m), cfg["mode"].as_str().unwrap_or("")), format!("{m} (cfg {cfg})"), json!({"cfg": cfg, "choices": choices}));
            }
        }
    }
    swarm_part(&mut out);
    swarm_addr_part(ctx, &mut out);
    out.count("executions_with_failures_before_outcome", with_refill);
    out.count("results_ok", oks);
    out.count("results_err", errs);
    out.count("results_ok_with_errors", ok_with_errors);
    out.count("executions_at_concurrency_limit", at_limit);
    if oks == 0 || errs == 0 || ok_with_errors == 0 || at_limit == 0 {
        out.machinery("vacuity: not all of {Ok, Err, Ok with earlier failures, in-flight == k with dials waiting} were observed");
    }
    out.notes.push(format!("non-smart N<= {maxn}, k<=4; smart: {} address sets; all choice sequences (free branching)", SMART_SETS.len()));
    out
}
