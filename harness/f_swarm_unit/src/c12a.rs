//! C12 part (a) — the `ExternalAddresses` / `ListenAddresses` / `PeerAddresses` helpers equal the
//! fold of the `FromSwarm` events they are fed and report "changed" exactly when their contents
//! change (E2: BFS over event histories of the real structs against reference models, with an
//! un-deduplicated DFS companion, plus scripted capacity families).
//!
//! This module is self-contained (mc, kit, libp2p-swarm, libp2p-core only) so that the C12 check
//! of the whole-Swarm family can include it with `#[path]` and call [`run_into`] /
//! [`replay_into`]; it is also registered stand-alone as `C12A` in this family's binary.
//!
//! Readings settled on:
//!  * "changed" = the *set* of stored addresses differs before/after (a refresh that only moves an
//!    address to the front is not a change; this is what the doc comments say too).
//!  * `ExternalAddresses`: ordered, most recent first, capped at 20 (order is judged).
//!  * `PeerAddresses`: per-peer sets compared as sets; capacity = LRU over peers (`new(n)`) and an
//!    LRU of 10 addresses per peer; "most recent" = most recently added/refreshed/looked-up
//!    (`get` is a look-up and refreshes the peer, like every other access). A peer whose last
//!    address was removed keeps its (empty) slot — the statement does not fix this, the model
//!    follows the implementation there.
//!  * A known defect must not hide others: a wrong "changed" flag is recorded as a violation but
//!    the history is still extended (soft violation), every other mismatch prunes the path.

use kit::ids::peer;
use libp2p_core::transport::{ListenerId, TransportError};
use libp2p_swarm::behaviour::{
    ExpiredListenAddr, ExternalAddrConfirmed, ExternalAddrExpired, ExternalAddresses, FromSwarm, ListenAddresses, NewExternalAddrOfPeer, NewListenAddr, PeerAddresses,
};
use libp2p_swarm::{ConnectionId, DialError, DialFailure};
use mc::bfs::{self, System};
use mc::{json, Ctx, Meta, Outcome, Value};
use multiaddr::Multiaddr;
use serde::{Deserialize, Serialize};
use std::cell::RefCell;
use std::collections::BTreeSet;
use std::num::NonZeroUsize;

pub const META: Meta = Meta {
    level: "model_checking",
    rule: "BFS over all histories of (a) confirm/expire over 3 addresses on ExternalAddresses, (b) new/expired listen address over 3 addresses on ListenAddresses, (c) NewExternalAddrOfPeer (3 plain addresses + one with matching /p2p + one with foreign /p2p), DialFailure(Transport over every subset of 3 addresses; Transport error lists of length 0..2, and of length 3 containing a foreign-/p2p address, over {3 plain addresses, address with the peer's own /p2p, address with ANOTHER peer's /p2p, never-cached address} in every order; Aborted; no peer) and get() over 2 peers on PeerAddresses::new(8), (d) the same over 3 peers x 2 addresses on PeerAddresses::new(2); states deduplicated on reference model + every getter. Scripted capacity families: 22 distinct confirmations with a refresh/expire inserted at every position; 12 addresses for one peer with a refresh inserted at every position. Non-trivial = states holding at least one address.",
    explanation: "Every step's return value is compared with (set before != set after) of the reference model and every reached state getter-by-getter with the model (ExternalAddresses ordered, the others as sets); un-deduplicated DFS companion at smaller depth.",
    assumptions: &["3 addresses / 2-3 peers (small-scope hypothesis) + scripted capacity families", "PeerAddresses state is observed on a replica built by replaying the same history, because get() itself refreshes the LRU"],
};

fn a(i: u8) -> Multiaddr {
    format!("/ip4/10.0.0.{}/tcp/{}", i / 200 + 1, 1000 + i as u16).parse().unwrap()
}

thread_local! {
    /// soft violations (signature :: message, history json) — recorded, path not pruned
    static SOFT: RefCell<Vec<(String, Value)>> = const { RefCell::new(Vec::new()) };
}
fn soft(msg: String, hist: Value) {
    SOFT.with(|s| {
        let mut s = s.borrow_mut();
        let sig = bfs::signature_of(&msg);
        if !s.iter().any(|(m, _)| bfs::signature_of(m) == sig) {
            s.push((msg, hist));
        }
    })
}
fn drain_soft(out: &mut Outcome, cfg: &Value) {
    for (m, h) in SOFT.with(|s| std::mem::take(&mut *s.borrow_mut())) {
        out.violation(bfs::signature_of(&m), format!("{m} after history {h}"), json!({"part": "a", "cfg": cfg, "history": h}));
    }
}

// ---------------------------------------------------------------------------------------------
// (a) ExternalAddresses

#[derive(Clone, Debug, Serialize, Deserialize, PartialEq)]
pub enum EAct {
    Confirm(u8),
    Expire(u8),
}

#[derive(Clone)]
struct ExtSys {
    real: ExternalAddresses,
    model: Vec<u8>, // most recent first
    n: u8,
    hist: Vec<EAct>,
}
impl ExtSys {
    fn new(n: u8) -> Self {
        ExtSys { real: ExternalAddresses::default(), model: vec![], n, hist: vec![] }
    }
    fn compare(&self) -> Result<(), String> {
        let want: Vec<Multiaddr> = self.model.iter().map(|i| a(*i)).collect();
        if self.real.as_slice() != want.as_slice() {
            return Err(format!("external as_slice mismatch :: real {:?} model {:?}", self.real.as_slice(), want));
        }
        let it: Vec<Multiaddr> = self.real.iter().cloned().collect();
        if it != want || self.real.iter().len() != want.len() {
            return Err(format!("external iter mismatch :: iter {:?} model {:?}", it, want));
        }
        if want.len() > 20 {
            return Err(format!("external capacity exceeded :: {}", want.len()));
        }
        Ok(())
    }
}
impl System for ExtSys {
    type Action = EAct;
    fn actions(&self) -> Vec<EAct> {
        (0..self.n).flat_map(|i| [EAct::Confirm(i), EAct::Expire(i)]).collect()
    }
    fn step(&mut self, act: &EAct) -> Result<(), String> {
        self.hist.push(act.clone());
        let before: BTreeSet<u8> = self.model.iter().copied().collect();
        let got = match act {
            EAct::Confirm(i) => {
                let ad = a(*i);
                let r = self.real.on_swarm_event(&FromSwarm::ExternalAddrConfirmed(ExternalAddrConfirmed { addr: &ad }));
                self.model.retain(|x| x != i);
                self.model.insert(0, *i);
                if self.model.len() > 20 {
                    evicted(0);
                }
                self.model.truncate(20);
                r
            }
            EAct::Expire(i) => {
                let ad = a(*i);
                let r = self.real.on_swarm_event(&FromSwarm::ExternalAddrExpired(ExternalAddrExpired { addr: &ad }));
                self.model.retain(|x| x != i);
                r
            }
        };
        let after: BTreeSet<u8> = self.model.iter().copied().collect();
        self.compare()?;
        if got != (before != after) {
            let kind = if matches!(act, EAct::Confirm(_)) { "confirm" } else { "expire" };
            soft(format!("external changed-flag {kind} returned {got} but contents-changed={} :: {act:?}", before != after), json!(self.hist));
        }
        Ok(())
    }
    fn canon(&self) -> Vec<u8> {
        format!("{:?}|{:?}", self.model, self.real.as_slice()).into_bytes()
    }
    fn nontrivial(&self) -> bool {
        !self.model.is_empty()
    }
}

// ---------------------------------------------------------------------------------------------
// (b) ListenAddresses

#[derive(Clone, Debug, Serialize, Deserialize, PartialEq)]
pub enum LAct {
    New(u8),
    Expired(u8),
    /// an event the helper must ignore
    Unrelated(u8),
}

#[derive(Clone)]
struct ListenSys {
    real: ListenAddresses,
    model: BTreeSet<u8>,
    hist: Vec<LAct>,
}
impl ListenSys {
    fn new() -> Self {
        ListenSys { real: ListenAddresses::default(), model: BTreeSet::new(), hist: vec![] }
    }
}
impl System for ListenSys {
    type Action = LAct;
    fn actions(&self) -> Vec<LAct> {
        (0..3).flat_map(|i| [LAct::New(i), LAct::Expired(i)]).chain([LAct::Unrelated(0)]).collect()
    }
    fn step(&mut self, act: &LAct) -> Result<(), String> {
        self.hist.push(act.clone());
        let before = self.model.clone();
        let got = match act {
            LAct::New(i) => {
                self.model.insert(*i);
                self.real.on_swarm_event(&FromSwarm::NewListenAddr(NewListenAddr { listener_id: ListenerId::next(), addr: &a(*i) }))
            }
            LAct::Expired(i) => {
                self.model.remove(i);
                self.real.on_swarm_event(&FromSwarm::ExpiredListenAddr(ExpiredListenAddr { listener_id: ListenerId::next(), addr: &a(*i) }))
            }
            LAct::Unrelated(i) => self.real.on_swarm_event(&FromSwarm::ExternalAddrConfirmed(ExternalAddrConfirmed { addr: &a(*i) })),
        };
        let mut have: Vec<Multiaddr> = self.real.iter().cloned().collect();
        have.sort();
        let mut want: Vec<Multiaddr> = self.model.iter().map(|i| a(*i)).collect();
        want.sort();
        if have != want || self.real.iter().len() != want.len() {
            return Err(format!("listen contents mismatch :: real {have:?} model {want:?}"));
        }
        if got != (before != self.model) {
            soft(format!("listen changed-flag returned {got} but contents-changed={} :: {act:?}", before != self.model), json!(self.hist));
        }
        Ok(())
    }
    fn canon(&self) -> Vec<u8> {
        let mut have: Vec<String> = self.real.iter().map(|m| m.to_string()).collect();
        have.sort();
        format!("{:?}|{have:?}", self.model).into_bytes()
    }
    fn nontrivial(&self) -> bool {
        !self.model.is_empty()
    }
}

// ---------------------------------------------------------------------------------------------
// (c)/(d) PeerAddresses

#[derive(Clone, Debug, Serialize, Deserialize, PartialEq)]
pub enum PAct {
    /// NewExternalAddrOfPeer(peer, plain address i)
    Add(u8, u8),
    /// address 0 already carrying /p2p/<peer>
    AddWithOwnP2p(u8),
    /// address 0 carrying /p2p/<another peer>: must be refused
    AddWithForeignP2p(u8),
    /// DialFailure{Some(peer), Transport(errors for the addresses in mask)}
    Fail(u8, u8),
    /// DialFailure{Some(peer), Transport(list)}: each item is a plain address i (0..=2), 10 = address 0
    /// with the peer's own /p2p suffix, 20 = address 0 with ANOTHER peer's /p2p suffix (does not
    /// normalise for this peer), 30 = an address that is never cached
    FailList(u8, Vec<u8>),
    /// DialFailure{Some(peer), Aborted}
    FailAborted(u8),
    /// DialFailure{None, Transport([address 0])}
    FailNoPeer,
    /// PeerAddresses::get(peer) (a look-up: refreshes the peer)
    Get(u8),
}

const PER_PEER: usize = 10;
/// vacuity counters: model-side evictions [external cap 20, per-peer cap 10, peer LRU]
static EVICT: [std::sync::atomic::AtomicU64; 3] = [std::sync::atomic::AtomicU64::new(0), std::sync::atomic::AtomicU64::new(0), std::sync::atomic::AtomicU64::new(0)];
fn evicted(k: usize) {
    EVICT[k].fetch_add(1, std::sync::atomic::Ordering::Relaxed);
}

struct PeerSys {
    real: PeerAddresses,
    /// recency order, least recent first; addresses (with /p2p) in recency order, least recent first
    model: Vec<(u8, Vec<Multiaddr>)>,
    cap: usize,
    peers: u8,
    addrs: u8,
    rich: bool,
    /// offer the FailList actions (Transport error lists in every order)
    lists: bool,
    hist: Vec<PAct>,
}

fn with_p2p(p: u8, m: Multiaddr) -> Option<Multiaddr> {
    m.with_p2p(peer(p)).ok()
}

fn fail_item(p: u8, item: u8) -> Multiaddr {
    match item {
        10 => with_p2p(p, a(0)).unwrap(),
        20 => with_p2p(p + 100, a(0)).unwrap(),
        30 => a(7),
        i => a(i),
    }
}

/// item alphabet of FailList and all lists of length 0..=2 plus those of length 3 that contain
/// the foreign-/p2p item (the only item on which normalisation fails)
fn fail_lists(addrs: u8) -> Vec<Vec<u8>> {
    let mut items: Vec<u8> = (0..addrs).collect();
    items.extend([10, 20, 30]);
    let mut v = Vec::new();
    for l in 0..=3 {
        mc::enumerate::sequences(items.len(), l, |idx| {
            let list: Vec<u8> = idx.iter().map(|&i| items[i]).collect();
            if l < 3 || list.contains(&20) {
                v.push(list);
            }
        });
    }
    v
}

fn apply_real(real: &mut PeerAddresses, act: &PAct) -> (Option<bool>, Option<Vec<Multiaddr>>) {
    match act {
        PAct::Add(p, i) => (Some(real.on_swarm_event(&FromSwarm::NewExternalAddrOfPeer(NewExternalAddrOfPeer { peer_id: peer(*p), addr: &a(*i) }))), None),
        PAct::AddWithOwnP2p(p) => {
            let ad = with_p2p(*p, a(0)).unwrap();
            (Some(real.on_swarm_event(&FromSwarm::NewExternalAddrOfPeer(NewExternalAddrOfPeer { peer_id: peer(*p), addr: &ad }))), None)
        }
        PAct::AddWithForeignP2p(p) => {
            let ad = with_p2p(p + 100, a(0)).unwrap();
            (Some(real.on_swarm_event(&FromSwarm::NewExternalAddrOfPeer(NewExternalAddrOfPeer { peer_id: peer(*p), addr: &ad }))), None)
        }
        PAct::Fail(p, mask) => {
            let errs: Vec<(Multiaddr, TransportError<std::io::Error>)> =
                (0..8u8).filter(|i| mask & (1 << i) != 0).map(|i| (a(i), TransportError::Other(std::io::Error::other("refused")))).collect();
            let e = DialError::Transport(errs);
            (Some(real.on_swarm_event(&FromSwarm::DialFailure(DialFailure { peer_id: Some(peer(*p)), error: &e, connection_id: ConnectionId::new_unchecked(7) }))), None)
        }
        PAct::FailList(p, list) => {
            let errs: Vec<(Multiaddr, TransportError<std::io::Error>)> = list
                .iter()
                .map(|&it| {
                    let m = fail_item(*p, it);
                    let e = if it == 20 { TransportError::MultiaddrNotSupported(m.clone()) } else { TransportError::Other(std::io::Error::other("refused")) };
                    (m, e)
                })
                .collect();
            let e = DialError::Transport(errs);
            (Some(real.on_swarm_event(&FromSwarm::DialFailure(DialFailure { peer_id: Some(peer(*p)), error: &e, connection_id: ConnectionId::new_unchecked(7) }))), None)
        }
        PAct::FailAborted(p) => {
            let e = DialError::Aborted;
            (Some(real.on_swarm_event(&FromSwarm::DialFailure(DialFailure { peer_id: Some(peer(*p)), error: &e, connection_id: ConnectionId::new_unchecked(7) }))), None)
        }
        PAct::FailNoPeer => {
            let e = DialError::Transport(vec![(a(0), TransportError::Other(std::io::Error::other("refused")))]);
            (Some(real.on_swarm_event(&FromSwarm::DialFailure(DialFailure { peer_id: None, error: &e, connection_id: ConnectionId::new_unchecked(7) }))), None)
        }
        PAct::Get(p) => (None, Some(real.get(&peer(*p)).collect())),
    }
}

impl PeerSys {
    fn new(cap: usize, peers: u8, addrs: u8, rich: bool) -> Self {
        PeerSys { real: PeerAddresses::new(NonZeroUsize::new(cap).unwrap()), model: vec![], cap, peers, addrs, rich, lists: rich, hist: vec![] }
    }
    fn touch(&mut self, p: u8) -> Option<usize> {
        let pos = self.model.iter().position(|e| e.0 == p)?;
        let e = self.model.remove(pos);
        self.model.push(e);
        Some(self.model.len() - 1)
    }
    fn m_add(&mut self, p: u8, addr: Option<Multiaddr>) {
        let Some(addr) = addr else { return };
        match self.touch(p) {
            Some(k) => {
                let l = &mut self.model[k].1;
                l.retain(|x| *x != addr);
                l.push(addr);
                if l.len() > PER_PEER {
                    evicted(1);
                    l.remove(0);
                }
            }
            None => {
                self.model.push((p, vec![addr]));
                if self.model.len() > self.cap {
                    evicted(2);
                    self.model.remove(0);
                }
            }
        }
    }
    fn m_remove(&mut self, p: u8, addr: Option<Multiaddr>) {
        if let Some(k) = self.touch(p) {
            if let Some(addr) = addr {
                self.model[k].1.retain(|x| *x != addr);
            }
        }
    }
    fn contents(&self) -> BTreeSet<(u8, String)> {
        self.model.iter().flat_map(|(p, l)| l.iter().map(move |m| (*p, m.to_string()))).collect()
    }
    /// observe the implementation on a replica (get() refreshes the LRU, so never on `real`)
    fn observe(&self) -> Vec<Vec<String>> {
        let mut r = PeerAddresses::new(NonZeroUsize::new(self.cap).unwrap());
        for h in &self.hist {
            apply_real(&mut r, h);
        }
        // one fresh replica per peer would be needed if a get could evict; it cannot.
        (0..self.peers)
            .map(|p| {
                let mut v: Vec<String> = r.get(&peer(p)).map(|m| m.to_string()).collect();
                v.sort();
                v
            })
            .collect()
    }
    fn model_view(&self) -> Vec<Vec<String>> {
        (0..self.peers)
            .map(|p| {
                let mut v: Vec<String> = self.model.iter().find(|e| e.0 == p).map(|e| e.1.iter().map(|m| m.to_string()).collect()).unwrap_or_default();
                v.sort();
                v
            })
            .collect()
    }
}

impl System for PeerSys {
    type Action = PAct;
    fn actions(&self) -> Vec<PAct> {
        let mut v = Vec::new();
        for p in 0..self.peers {
            for i in 0..self.addrs {
                v.push(PAct::Add(p, i));
            }
            if self.rich {
                v.push(PAct::AddWithOwnP2p(p));
                v.push(PAct::AddWithForeignP2p(p));
                for mask in 1..(1u8 << self.addrs) {
                    v.push(PAct::Fail(p, mask));
                }
                if self.lists {
                    for l in fail_lists(self.addrs) {
                        v.push(PAct::FailList(p, l));
                    }
                }
                v.push(PAct::FailAborted(p));
            } else {
                for i in 0..self.addrs {
                    v.push(PAct::Fail(p, 1 << i));
                }
            }
            v.push(PAct::Get(p));
        }
        if self.rich {
            v.push(PAct::FailNoPeer);
        }
        v
    }
    fn step(&mut self, act: &PAct) -> Result<(), String> {
        self.hist.push(act.clone());
        let before = self.contents();
        let (flag, got) = apply_real(&mut self.real, act);
        let mut get_want: Option<Vec<String>> = None;
        match act {
            PAct::Add(p, i) => self.m_add(*p, with_p2p(*p, a(*i))),
            PAct::AddWithOwnP2p(p) => self.m_add(*p, with_p2p(*p, a(0))),
            PAct::AddWithForeignP2p(_) => {}
            PAct::Fail(p, mask) => {
                for i in (0..8u8).filter(|i| mask & (1 << i) != 0) {
                    self.m_remove(*p, with_p2p(*p, a(i)));
                }
            }
            PAct::FailList(p, list) => {
                // plain fold: every listed address that normalises for this peer is removed
                for &it in list {
                    self.m_remove(*p, fail_item(*p, it).with_p2p(peer(*p)).ok());
                }
            }
            PAct::FailAborted(_) | PAct::FailNoPeer => {}
            PAct::Get(p) => {
                self.touch(*p);
                get_want = Some(self.model_view()[*p as usize].clone());
            }
        }
        let after = self.contents();
        if let (Some(got), Some(want)) = (got, get_want) {
            let mut g: Vec<String> = got.iter().map(|m| m.to_string()).collect();
            g.sort();
            if g != want {
                return Err(format!("peer get mismatch :: {act:?}: real {g:?} model {want:?}"));
            }
        }
        let (o, m) = (self.observe(), self.model_view());
        if o != m {
            return Err(format!("peer contents mismatch :: after {act:?}: real {o:?} model {m:?}"));
        }
        if let Some(flag) = flag {
            if flag != (before != after) {
                let kind = match act {
                    PAct::Add(..) | PAct::AddWithOwnP2p(_) | PAct::AddWithForeignP2p(_) => "new-addr",
                    PAct::Fail(..) => "dial-failure-transport",
                    PAct::FailList(..) => "dial-failure-transport-list",
                    PAct::FailAborted(_) => "dial-failure-aborted",
                    PAct::FailNoPeer => "dial-failure-no-peer",
                    PAct::Get(_) => "get",
                };
                soft(format!("peer changed-flag {kind} returned {flag} but contents-changed={} :: {act:?}", before != after), json!(self.hist));
            }
        }
        Ok(())
    }
    fn canon(&self) -> Vec<u8> {
        format!("{:?}|{:?}|{:?}", self.model, self.observe(), self.real).into_bytes()
    }
    fn nontrivial(&self) -> bool {
        self.model.iter().any(|e| !e.1.is_empty())
    }
}

// ---------------------------------------------------------------------------------------------

fn run_history<S: System>(mut s: S, hist: &[S::Action]) -> Result<(), String> {
    for act in hist {
        match mc::catch(|| s.step(act)) {
            Ok(r) => r?,
            Err(p) => return Err(format!("panic :: {p}")),
        }
    }
    Ok(())
}

fn scripted(out: &mut Outcome) {
    // 22 distinct confirmations with one refresh / expire inserted at every position
    let cfg = json!({"sys": "ext22"});
    let mut n = 0u64;
    for pos in 0..=22u8 {
        for op in 0..3u8 {
            for k in [0u8, pos.saturating_sub(1), 10] {
                let mut h: Vec<EAct> = Vec::new();
                for i in 0..22u8 {
                    if i == pos {
                        match op {
                            0 => {}
                            1 => h.push(EAct::Confirm(k)),
                            _ => h.push(EAct::Expire(k)),
                        }
                    }
                    h.push(EAct::Confirm(i));
                }
                if pos == 22 && op > 0 {
                    h.push(if op == 1 { EAct::Confirm(k) } else { EAct::Expire(k) });
                }
                n += 1;
                out.nontrivial(&format!("ext22-{pos}-{op}-{k}"));
                if let Err(m) = run_history(ExtSys::new(22), &h) {
                    out.violation(bfs::signature_of(&m), format!("{m} (scripted capacity history)"), json!({"part": "a", "cfg": cfg, "history": h}));
                }
            }
        }
    }
    drain_soft(out, &cfg);
    // 12 addresses for one peer with a refresh inserted at every position
    let cfg = json!({"sys": "peer12"});
    for pos in 0..=12u8 {
        for k in [255u8, 0, pos.saturating_sub(1), 5] {
            let mut h: Vec<PAct> = Vec::new();
            for i in 0..12u8 {
                if i == pos && k != 255 {
                    h.push(PAct::Add(0, k));
                }
                h.push(PAct::Add(0, i));
            }
            h.push(PAct::Fail(0, 0b11));
            n += 1;
            out.nontrivial(&format!("peer12-{pos}-{k}"));
            if let Err(m) = run_history(PeerSys::new(8, 1, 3, false), &h) {
                out.violation(bfs::signature_of(&m), format!("{m} (scripted capacity history)"), json!({"part": "a", "cfg": cfg, "history": h}));
            }
        }
    }
    drain_soft(out, &cfg);
    out.count("scripted_capacity_histories", n);
    out.evaluations += n;
    out.traces += n;
}

fn make_peer(cfg: &Value) -> PeerSys {
    match cfg["sys"].as_str() {
        Some("peer-cap2") => PeerSys::new(2, 3, 2, false),
        Some("peer12") => PeerSys::new(8, 1, 3, false),
        Some("peer-nolists") => {
            let mut s = PeerSys::new(8, 2, 3, true);
            s.lists = false;
            s
        }
        _ => PeerSys::new(8, 2, 3, true),
    }
}

/// Replay one recorded case; returns false if the case does not belong to this part.
pub fn replay_into(case: &Value, out: &mut Outcome) -> bool {
    if case["part"].as_str() != Some("a") {
        return false;
    }
    out.evaluations += 1;
    let cfg = &case["cfg"];
    let r = match cfg["sys"].as_str() {
        Some("ext") => bfs::replay_history(ExtSys::new(3), case),
        Some("ext22") => bfs::replay_history(ExtSys::new(22), case),
        Some("listen") => bfs::replay_history(ListenSys::new(), case),
        _ => bfs::replay_history(make_peer(cfg), case),
    };
    if let Err(m) = r {
        out.violation(bfs::signature_of(&m), m, case.clone());
    }
    drain_soft(out, cfg);
    true
}

pub fn run_into(ctx: &Ctx, out: &mut Outcome) {
    SOFT.with(|s| s.borrow_mut().clear());
    let (d_small, d_peer, d_cap, d_dfs) = (ctx.tier.pick(6, 8), ctx.tier.pick(5, 7), ctx.tier.pick(6, 8), ctx.tier.pick(3, 4));
    // (a)
    let cfg = json!({"sys": "ext"});
    let (st, v) = bfs::bfs_clone(ExtSys::new(3), d_small, 2_000_000);
    bfs::record(out, &cfg, &st, &v);
    drain_soft(out, &cfg);
    let (n, capped, v) = bfs::dfs_all(|| ExtSys::new(3), d_dfs + 1, 3_000_000);
    companion(out, &cfg, n, capped, v);
    // (b)
    let cfg = json!({"sys": "listen"});
    let (st, v) = bfs::bfs_clone(ListenSys::new(), d_small, 2_000_000);
    bfs::record(out, &cfg, &st, &v);
    drain_soft(out, &cfg);
    let (n, capped, v) = bfs::dfs_all(ListenSys::new, d_dfs + 1, 3_000_000);
    companion(out, &cfg, n, capped, v);
    // (c)
    let cfg = json!({"sys": "peer"});
    let (st, v) = bfs::bfs_replay(|| make_peer(&json!({"sys": "peer"})), d_peer, 2_000_000);
    out.count("peer_states", st.states);
    bfs::record(out, &cfg, &st, &v);
    drain_soft(out, &cfg);
    // companion: all actions to depth 2, the actions without the error lists to depth 3
    let (n, capped, v) = bfs::dfs_all(|| make_peer(&json!({"sys": "peer"})), 2, 3_000_000);
    companion(out, &cfg, n, capped, v);
    let cfg = json!({"sys": "peer-nolists"});
    let (n, capped, v) = bfs::dfs_all(|| make_peer(&json!({"sys": "peer-nolists"})), d_dfs.min(3), 3_000_000);
    companion(out, &cfg, n, capped, v);
    // (d)
    let cfg = json!({"sys": "peer-cap2"});
    let (st, v) = bfs::bfs_replay(|| make_peer(&json!({"sys": "peer-cap2"})), d_cap, 2_000_000);
    out.count("peer_cap2_states", st.states);
    bfs::record(out, &cfg, &st, &v);
    drain_soft(out, &cfg);
    let (n, capped, v) = bfs::dfs_all(|| make_peer(&json!({"sys": "peer-cap2"})), d_dfs, 3_000_000);
    companion(out, &cfg, n, capped, v);
    // capacity families
    scripted(out);
    for (k, name) in ["external_cap20_evictions", "per_peer_cap10_evictions", "peer_lru_evictions"].iter().enumerate() {
        let n = EVICT[k].load(std::sync::atomic::Ordering::Relaxed);
        out.count(name, n);
        if n == 0 {
            out.machinery(format!("vacuity: {name} never happened"));
        }
    }
    out.notes.push(format!("C12a: bfs depth ext/listen {d_small}, peer {d_peer}, peer-cap2 {d_cap}; dfs companion depth {}/{d_dfs}", d_dfs + 1));
}

fn companion<A: Serialize + std::fmt::Debug>(out: &mut Outcome, cfg: &Value, n: u64, capped: bool, v: Vec<bfs::Violation<A>>) {
    out.count("dfs_companion_sequences", n);
    out.evaluations += n;
    out.traces += n;
    if capped {
        out.caps.push(format!("dfs companion capped at {n} sequences ({cfg})"));
        out.not_exhaustive = true;
    }
    bfs::record(out, cfg, &Default::default(), &v);
    drain_soft(out, cfg);
}

pub fn run(ctx: &Ctx) -> Outcome {
    let mut out = Outcome::default();
    if let Some(case) = &ctx.replay {
        let mut c = case.clone();
        if c["part"].is_null() {
            c["part"] = json!("a");
        }
        replay_into(&c, &mut out);
        return out;
    }
    run_into(ctx, &mut out);
    out
}
