//! C09 — smart-dial ranking is a complete, well-ordered permutation (E3: complete enumeration
//! of address multisets, in several input orders, against an independent classifier).
//!
//! Reading of the statement (only what it fixes is judged):
//!  * output = permutation of the input, every delay finite (< 1 h);
//!  * "come out in the documented groups: private/localhost first, then public, then relay, then
//!    no-IP": the *positions* in the returned list are grouped in that order;
//!  * "no address of the last group is scheduled before an address of an earlier group": no
//!    last-group delay is strictly smaller than the delay of an earlier-group address;
//!  * within a group every QUIC delay <= every TCP delay.
//! Exact delay values, the order inside a group and the relative *delays* of the first three
//! groups are not judged.

use libp2p_swarm::verif_swarm_unit::rank_dials;
use mc::{json, Ctx, Meta, Outcome};
use multiaddr::{Multiaddr, Protocol};
use std::time::Duration;

pub const META: Meta = Meta {
    level: "exploration",
    rule: "all multisets of size <=3 (quick) / <=5 (thorough) over a 26-address alphabet (private/public/loopback v4, link-local(zone)/ULA/public v6 x quic-v1/quic/tcp/webtransport/webrtc-direct/none, ports 1/2, /dns*/localhost names, /dns*/example.com, /dnsaddr, relay via ip4/ip6/dns/private) each in every input permutation (size<=3) or identity+reverse order (size 4,5), plus all multisets of size <=6 (quick) / <=9 (thorough) over a 10-address sub-alphabet (identity + reverse order). Non-trivial = distinct inputs whose addresses fall in >=2 different groups or contain both a QUIC and a TCP address.",
    explanation: "Complete enumeration (E3) through the production rank_dials (hook wrapper with never-resolving futures); groups computed by an independent classifier in the harness.",
    assumptions: &["one or two representative hosts per address class", "only the orderings the statement fixes are judged (positions grouped; last group never earlier; QUIC<=TCP inside a group)"],
};

fn alphabet() -> Vec<String> {
    let r = kit::ids::peer(9).to_string();
    [
        // private / local IPs
        "/ip4/192.168.1.5/udp/1/quic-v1",
        "/ip4/192.168.1.5/tcp/1",
        "/ip4/192.168.1.5/udp/1/webrtc-direct",
        "/ip4/127.0.0.1/tcp/1",
        "/ip6zone/eth0/ip6/fe80::1/udp/1/quic-v1",
        "/ip6/fd00::1/tcp/1",
        // public IPs
        "/ip4/8.8.8.8/udp/1/quic-v1",
        "/ip4/8.8.8.8/udp/2/quic-v1",
        "/ip4/8.8.8.8/udp/1/quic",
        "/ip4/8.8.8.8/tcp/1",
        "/ip4/8.8.8.8/tcp/2",
        "/ip4/8.8.8.8/udp/1/quic-v1/webtransport",
        "/ip4/8.8.8.8/udp/1/webrtc-direct",
        "/ip4/8.8.8.8",
        "/ip6/2606:4700::1/udp/1/quic-v1",
        "/ip6/2606:4700::1/tcp/1",
        // names
        "/dns/localhost/tcp/1",
        "/dns4/x.localhost/udp/1/quic-v1",
        "/dns/example.com/tcp/443",
        "/dns6/example.com/udp/1/quic-v1",
        "/dnsaddr/boot.example.com",
        // relay
        "/ip4/8.8.8.8/tcp/1/p2p/{R}/p2p-circuit",
        "/ip4/8.8.8.8/udp/1/quic-v1/p2p/{R}/p2p-circuit",
        "/ip6/2606:4700::1/tcp/1/p2p/{R}/p2p-circuit",
        "/dns/relay.example.com/tcp/1/p2p/{R}/p2p-circuit",
        "/ip4/192.168.1.5/tcp/1/p2p/{R}/p2p-circuit",
    ]
    .iter()
    .map(|s| s.replace("{R}", &r))
    .collect()
}

/// sub-alphabet for the deeper multisets (long public groups + relay + no-IP names)
const SUB: [usize; 10] = [6, 7, 9, 12, 14, 21, 22, 18, 16, 1];

#[derive(Clone, Copy, PartialEq, Eq, PartialOrd, Ord, Debug)]
enum Kind {
    PrivateIp,
    LocalhostName,
    PublicIp,
    Relay,
    DnsName,
    DnsAddr,
    OtherNoIp,
}
impl Kind {
    fn group(self) -> u8 {
        match self {
            Kind::PrivateIp | Kind::LocalhostName => 0,
            Kind::PublicIp => 1,
            Kind::Relay => 2,
            Kind::DnsName | Kind::DnsAddr | Kind::OtherNoIp => 3,
        }
    }
    fn name(self) -> &'static str {
        match self {
            Kind::PrivateIp => "private-ip",
            Kind::LocalhostName => "localhost-name",
            Kind::PublicIp => "public-ip",
            Kind::Relay => "relay",
            Kind::DnsName => "dns-name",
            Kind::DnsAddr => "dnsaddr",
            Kind::OtherNoIp => "no-ip",
        }
    }
}

/// Independent classifier following the documented rule (doc comment of `rank_dials` and the
/// property statement), written without looking at `is_global_*`: the alphabet only contains
/// textbook representatives (RFC1918, loopback, fe80::/10, fc00::/7 vs. 8.8.8.8 / 2606:4700::1).
fn classify(a: &Multiaddr) -> Kind {
    if a.iter().any(|p| matches!(p, Protocol::P2pCircuit)) {
        return Kind::Relay;
    }
    for p in a.iter() {
        match p {
            Protocol::Ip4(ip) => {
                return if ip.is_private() || ip.is_loopback() || ip.is_link_local() { Kind::PrivateIp } else { Kind::PublicIp };
            }
            Protocol::Ip6(ip) => {
                let s0 = ip.segments()[0];
                return if ip.is_loopback() || (s0 & 0xfe00) == 0xfc00 || (s0 & 0xffc0) == 0xfe80 { Kind::PrivateIp } else { Kind::PublicIp };
            }
            _ => {}
        }
    }
    for p in a.iter() {
        match p {
            Protocol::Dns(n) | Protocol::Dns4(n) | Protocol::Dns6(n) => {
                return if n == "localhost" || n.ends_with(".localhost") { Kind::LocalhostName } else { Kind::DnsName };
            }
            Protocol::Dnsaddr(_) => return Kind::DnsAddr,
            _ => {}
        }
    }
    Kind::OtherNoIp
}

fn is_quic(a: &Multiaddr) -> bool {
    a.iter().any(|p| matches!(p, Protocol::Quic | Protocol::QuicV1)) && !a.iter().any(|p| matches!(p, Protocol::WebTransport))
}
fn is_tcp(a: &Multiaddr) -> bool {
    a.iter().any(|p| matches!(p, Protocol::Tcp(_)))
}

/// all violations of one input (one message per distinct signature)
fn judge(input: &[Multiaddr]) -> Vec<String> {
    let mut errs = Vec::new();
    let outp = match mc::catch(|| rank_dials(input.to_vec())) {
        Ok(o) => o,
        Err(p) => return vec![format!("panic :: {p}")],
    };
    let show = || outp.iter().map(|(d, a)| format!("{}ms {a}", d.as_millis())).collect::<Vec<_>>().join(", ");
    // permutation
    let mut a: Vec<Vec<u8>> = input.iter().map(|m| m.to_vec()).collect();
    let mut b: Vec<Vec<u8>> = outp.iter().map(|(_, m)| m.to_vec()).collect();
    a.sort();
    b.sort();
    if a != b {
        errs.push(format!("not-a-permutation :: {} in, {} out: [{}]", input.len(), outp.len(), show()));
        return errs;
    }
    let ks: Vec<Kind> = outp.iter().map(|(_, m)| classify(m)).collect();
    for (i, (d, m)) in outp.iter().enumerate() {
        if *d >= Duration::from_secs(3600) {
            errs.push(format!("delay-not-finite {} :: {m} gets {d:?}: [{}]", ks[i].name(), show()));
        }
    }
    for i in 0..outp.len() {
        for j in 0..outp.len() {
            if i == j {
                continue;
            }
            let (gi, gj) = (ks[i].group(), ks[j].group());
            // positions grouped in the documented order: i before j  =>  group(i) <= group(j)
            if i < j && gi > gj {
                errs.push(format!("group-position {} placed before {} :: [{}]", ks[i].name(), ks[j].name(), show()));
            }
            // last group never scheduled before an earlier group
            if gi == 3 && gj < 3 && outp[i].0 < outp[j].0 {
                let pos = if i < j { "misplaced" } else { "placed-last" };
                errs.push(format!("last-group-early {} before {} ({pos}) :: {} at {}ms < {} at {}ms: [{}]", ks[i].name(), ks[j].name(), outp[i].1, outp[i].0.as_millis(), outp[j].1, outp[j].0.as_millis(), show()));
            }
            // QUIC no later than TCP inside a group
            if gi == gj && is_quic(&outp[i].1) && is_tcp(&outp[j].1) && !is_tcp(&outp[i].1) && !is_quic(&outp[j].1) && outp[i].0 > outp[j].0 {
                errs.push(format!("quic-after-tcp group{gi} quic={} tcp={} :: {} at {}ms > {} at {}ms: [{}]", ks[i].name(), ks[j].name(), outp[i].1, outp[i].0.as_millis(), outp[j].1, outp[j].0.as_millis(), show()));
            }
        }
    }
    errs
}

fn nontrivial(input: &[Multiaddr]) -> bool {
    let g: std::collections::BTreeSet<u8> = input.iter().map(|a| classify(a).group()).collect();
    g.len() >= 2 || (input.iter().any(is_quic) && input.iter().any(is_tcp))
}

pub fn run(ctx: &Ctx) -> Outcome {
    let mut out = Outcome::default();
    if let Some(c) = &ctx.replay {
        out.evaluations = 1;
        let addrs: Vec<Multiaddr> = c["addrs"].as_array().map(|v| v.iter().filter_map(|s| s.as_str()?.parse().ok()).collect()).unwrap_or_default();
        let want = c["signature"].as_str().unwrap_or("");
        for m in judge(&addrs) {
            let sig = mc::bfs::signature_of(&m);
            if want.is_empty() || sig == want {
                out.violation(sig, m, c.clone());
            }
        }
        return out;
    }
    let alpha: Vec<Multiaddr> = alphabet().iter().map(|s| s.parse().expect("alphabet address")).collect();
    // classifier sanity (vacuity): all four groups are represented
    let mut per_group = [0u64; 4];
    for a in &alpha {
        per_group[classify(a).group() as usize] += 1;
    }
    if per_group.iter().any(|n| *n == 0) {
        out.machinery(format!("alphabet does not cover all four groups: {per_group:?}"));
    }
    let eval = |input: &[Multiaddr], out: &mut Outcome| {
        out.evaluations += 1;
        if nontrivial(input) {
            let key: String = input.iter().map(|a| a.to_string()).collect::<Vec<_>>().join(",");
            out.nontrivial(&key);
            if out.evaluations % 7919 == 5 {
                out.sample(json!({"input": input.iter().map(|a| a.to_string()).collect::<Vec<_>>(), "output": rank_dials(input.to_vec()).iter().map(|(d, a)| format!("{}ms {a}", d.as_millis())).collect::<Vec<_>>()}));
            }
        }
        for m in judge(input) {
            let sig = mc::bfs::signature_of(&m);
            out.count("violating_inputs", 1);
            out.violation(sig.clone(), m, json!({"addrs": input.iter().map(|a| a.to_string()).collect::<Vec<_>>(), "signature": sig}));
        }
    };
    // part 1: full alphabet
    let maxk = ctx.tier.pick(3, 5);
    for k in 0..=maxk {
        mc::enumerate::multisets(alpha.len(), k, |idx| {
            let ms: Vec<Multiaddr> = idx.iter().map(|&i| alpha[i].clone()).collect();
            if k <= 3 {
                let mut seen = std::collections::BTreeSet::new();
                mc::enumerate::permutations(&ms, |p| {
                    let key: Vec<Vec<u8>> = p.iter().map(|m| m.to_vec()).collect();
                    if seen.insert(key) {
                        eval(p, &mut out);
                    }
                });
            } else {
                eval(&ms, &mut out);
                let mut r = ms.clone();
                r.reverse();
                eval(&r, &mut out);
            }
            out.count("multisets_full_alphabet", 1);
        });
    }
    // part 2: deeper multisets over the sub-alphabet
    let sub: Vec<Multiaddr> = SUB.iter().map(|&i| alpha[i].clone()).collect();
    let maxs = ctx.tier.pick(6, 9);
    for k in (maxk + 1)..=maxs {
        mc::enumerate::multisets(sub.len(), k, |idx| {
            let ms: Vec<Multiaddr> = idx.iter().map(|&i| sub[i].clone()).collect();
            eval(&ms, &mut out);
            let mut r = ms.clone();
            r.reverse();
            eval(&r, &mut out);
            out.count("multisets_sub_alphabet", 1);
        });
    }
    out.notes.push(format!("full alphabet {} addresses, multisets <= {maxk}; sub-alphabet {} addresses, multisets {}..={maxs}", alpha.len(), sub.len(), maxk + 1));
    out
}
