//! C50 — AutoNAT v1 dial-back addresses (E3: complete enumeration of demanded address lists
//! through the real `filter_valid_addrs`, via hook).
//!
//! Oracle (statement): every address the server would dial has *all* its IP components equal to
//! the observed IP of the requester, contains no relay hop (`p2p-circuit`) and ends with
//! `/p2p/<requester>`. With no observed IP nothing may be dialed.
//!
//! Part 2 (throttling, E2 BFS, module `throttle` below): the real `autonat::Behaviour` (v1) is driven
//! standalone as a server through `NetworkBehaviour`; see there.

use kit::ids::peer;
use libp2p_autonat::Behaviour;
use mc::{enumerate, json, Ctx, Meta, Outcome, Value};
use multiaddr::{Multiaddr, Protocol};
use std::net::{Ipv4Addr, Ipv6Addr};

pub const META: Meta = Meta {
    level: "exploration",
    rule: "every demanded address of 1..=4 components over {ip4 a, ip4 b, ip6 c, dns4, tcp, udp, p2p requester, p2p other, p2p-circuit} (7380 addresses) as a single-element list, and every ordered pair of addresses of <= 2 components (8100 lists), each against observed address in {ip4, ip6, dns-only}, through the real filter_valid_addrs. Throttling part: BFS over {dial request from P1/P2/P3, dial-back of P finished ok / failed, unrelated outbound / inbound connection of P established and closed during its dial-back, AddressChange of P's connection (direct IP a / direct IP b / relayed), advance 500 ms / 1 s} on the real Behaviour. Non-trivial = distinct (observed, list) cases for which at least one address is returned, plus BFS states with at least one accepted probe inside the window.",
    explanation: "Complete enumeration (E3) over the stated component alphabet; every returned address is checked component by component against the statement. Throttling: BFS over histories of the real Behaviour (E2) against a reference model of ongoing dial-backs and accepted-probe timestamps.",
    assumptions: &["component alphabet of 9 representatives, <= 4 components per address, <= 2 addresses per request", "throttling part: 3 requesting peers, one address per request, limits global 2 / per peer 1 / period 1 s, BFS depth 8 (quick) / 11 (thorough); a probe counts for the window in which its ToSwarm::Dial is issued; window = half-open interval of one period"],
};

fn comp(i: usize) -> Protocol<'static> {
    match i {
        0 => Protocol::Ip4(Ipv4Addr::new(1, 1, 1, 1)),
        1 => Protocol::Ip4(Ipv4Addr::new(2, 2, 2, 2)),
        2 => Protocol::Ip6(Ipv6Addr::new(0x2001, 0xdb8, 0, 0, 0, 0, 0, 3)),
        3 => Protocol::Dns4("example.com".into()),
        4 => Protocol::Tcp(4001),
        5 => Protocol::Udp(4001),
        6 => Protocol::P2p(peer(1)),
        7 => Protocol::P2p(peer(2)),
        _ => Protocol::P2pCircuit,
    }
}
const NCOMP: usize = 9;

fn build(idx: &[usize]) -> Multiaddr {
    let mut m = Multiaddr::empty();
    for &i in idx {
        m.push(comp(i));
    }
    m
}

fn observed(o: usize) -> Multiaddr {
    match o {
        0 => "/ip4/9.9.9.9/tcp/30333".parse().unwrap(),
        1 => "/ip6/2001:db8::9/tcp/30333".parse().unwrap(),
        _ => "/dns4/requester.example/tcp/30333".parse().unwrap(),
    }
}

/// returns Ok(number of returned addresses) or the violation
fn case(o: usize, list: &[Vec<usize>]) -> Result<usize, String> {
    let obs = observed(o);
    let obs_ip = obs.iter().find(|p| matches!(p, Protocol::Ip4(_) | Protocol::Ip6(_)));
    let demanded: Vec<Multiaddr> = list.iter().map(|l| build(l)).collect();
    let out = mc::catch(|| Behaviour::verif_filter_valid_addrs(peer(1), demanded.clone(), &obs)).map_err(|p| format!("filter-panic :: {p}"))?;
    for a in &out {
        let Some(ip) = &obs_ip else {
            return Err(format!("dial-without-observed-ip :: observed {obs} has no IP but {a} would be dialed"));
        };
        let ips: Vec<Protocol> = a.iter().filter(|p| matches!(p, Protocol::Ip4(_) | Protocol::Ip6(_))).collect();
        if let Some(pos) = ips.iter().position(|p| p != ip) {
            let which = if pos == 0 { "first" } else { "later" };
            return Err(format!("foreign-ip-component-{which} :: demanded {demanded:?}, observed {obs}: would dial {a} whose IP component #{pos} ({}) is not the observed IP", ips[pos]));
        }
        if ips.is_empty() {
            return Err(format!("dial-without-ip-component :: would dial {a} which has no IP component (observed {obs})"));
        }
        if a.iter().any(|p| matches!(p, Protocol::P2pCircuit)) {
            return Err(format!("relay-hop :: would dial {a} (contains p2p-circuit)"));
        }
        if a.iter().last() != Some(Protocol::P2p(peer(1))) {
            return Err(format!("not-ending-with-requester-peer-id :: demanded {demanded:?}: would dial {a}, which does not end with /p2p/<requester>"));
        }
    }
    Ok(out.len())
}

pub fn run(ctx: &Ctx) -> Outcome {
    let mut out = Outcome::default();
    if let Some(c) = &ctx.replay {
        out.evaluations = 1;
        if c.get("history").is_some() {
            throttle::replay(c, &mut out);
            return out;
        }
        let o = c["observed"].as_u64().unwrap_or(0) as usize;
        let list: Vec<Vec<usize>> = serde_json::from_value(c["list"].clone()).unwrap_or_default();
        if let Err(m) = case(o, &list) {
            out.violation(mc::bfs::signature_of(&m), m, c.clone());
        }
        return out;
    }
    let maxlen = ctx.tier.pick(4, 5);
    let mut accepted = 0u64;
    let mut rejected = 0u64;
    let mut run_case = |o: usize, list: Vec<Vec<usize>>, out: &mut Outcome| {
        out.evaluations += 1;
        match case(o, &list) {
            Ok(n) => {
                if n > 0 {
                    accepted += 1;
                    out.nontrivial(&format!("{o}{list:?}"));
                    if accepted % 997 == 1 {
                        out.sample(json!({"observed": observed(o).to_string(), "demanded": list.iter().map(|l| build(l).to_string()).collect::<Vec<_>>(), "returned": n}));
                    }
                } else {
                    rejected += 1;
                }
            }
            Err(m) => {
                out.nontrivial(&format!("{o}{list:?}"));
                let case: Value = json!({"observed": o, "list": list});
                out.violation(mc::bfs::signature_of(&m), m, case);
            }
        }
    };
    for o in 0..3 {
        for len in 1..=maxlen {
            enumerate::sequences(NCOMP, len, |idx| run_case(o, vec![idx.to_vec()], &mut out));
        }
        let mut small: Vec<Vec<usize>> = Vec::new();
        for len in 1..=2 {
            enumerate::sequences(NCOMP, len, |idx| small.push(idx.to_vec()));
        }
        for a in &small {
            for b in &small {
                run_case(o, vec![a.clone(), b.clone()], &mut out);
            }
        }
    }
    out.count("lists_with_dialable_address", accepted);
    out.count("lists_fully_rejected", rejected);
    if accepted == 0 || rejected == 0 {
        out.machinery("vacuity: enumeration never produced both a dialable and a fully rejected list");
    }
    out.notes.push(format!("addresses of <= {maxlen} components"));
    throttle::run(ctx, &mut out);
    out
}

/// Part 2 — throttling and one dial-back per peer (E2 BFS over histories of the real Behaviour).
///
/// Oracle (statement): a `ToSwarm::Dial` is never issued for a peer whose previous dial-back has not
/// finished; at the moment a probe is accepted (= its Dial is issued) at most `peer_max` probes of
/// that peer and `global_max` probes in total were accepted within the last period (half-open
/// window `(t - period, t]`, the lenient reading); a request that is not accepted gets an error
/// response on its channel (not silence, not success); a dial-back that is still in flight keeps its
/// response channel (an unrelated connection of the peer neither drops nor answers it) and is answered
/// exactly when it finishes; the addresses dialed (as announced in InboundProbeEvent::Request next to the Dial)
/// carry only the requester's currently observed non-relayed IP (FromSwarm::AddressChange direct/relayed/other IP
/// is part of the alphabet) and nothing is dialed while its only connection is relayed; a refusal needs a reason: an ongoing dial-back of the peer, only a relayed connection, or peer_max /
/// global_max probes accepted within the last period (closed window, so both boundary readings are
/// accepted) — explored with Config::throttle_server_period below and above the clients period.
mod throttle {
    use kit::ids::peer;
    use libp2p_autonat::{Behaviour, Config};
    use libp2p_core::{transport::PortUse, ConnectedPoint, Endpoint};
    use libp2p_swarm::behaviour::{ConnectionClosed, ConnectionEstablished, DialFailure};
    use libp2p_swarm::{ConnectionId, DialError, FromSwarm, NetworkBehaviour, ToSwarm};
    use mc::bfs::{self, System};
    use mc::{json, Ctx, Outcome, Value};
    use multiaddr::{Multiaddr, Protocol};
    use serde::{Deserialize, Serialize};
    use std::sync::atomic::{AtomicU64, Ordering::SeqCst};
    use std::task::{Context, Poll};
    use std::time::Duration;

    const GLOBAL_MAX: usize = 2;
    const PEER_MAX: usize = 1;
    const PERIOD_MS: u64 = 1000;
    const NPEERS: u8 = 3;

    static ACCEPTED: AtomicU64 = AtomicU64::new(0);
    static REFUSED_ONGOING: AtomicU64 = AtomicU64::new(0);
    static REFUSED_PEER: AtomicU64 = AtomicU64::new(0);
    static REFUSED_GLOBAL: AtomicU64 = AtomicU64::new(0);
    static ACCEPTED_AFTER_WINDOW: AtomicU64 = AtomicU64::new(0);
    static UNRELATED_CONNS: AtomicU64 = AtomicU64::new(0);
    static ADDR_CHANGES: AtomicU64 = AtomicU64::new(0);
    static REFUSED_RELAYED: AtomicU64 = AtomicU64::new(0);
    static DIALS_DIRECT: [AtomicU64; 2] = [AtomicU64::new(0), AtomicU64::new(0)];

    #[derive(Clone, Debug, Serialize, Deserialize, PartialEq)]
    pub enum Act {
        Request(u8),
        DialOk(u8),
        DialFail(u8),
        /// an unrelated outbound connection to the peer (address not in the dial-back list) is
        /// established and closed again while its dial-back is ongoing
        OtherOutbound(u8),
        /// a further inbound connection from the peer is established and closed again
        OtherInbound(u8),
        /// FromSwarm::AddressChange on the peer's (only lasting) connection: new endpoint kind
        /// 0 = direct at IP a, 1 = direct at IP b, 2 = relayed (remote address starts with the relay's global IP)
        AddrChange(u8, u8),
        Advance(u64),
    }

    type Probe = Box<dyn FnMut() -> Option<Option<Result<Multiaddr, libp2p_autonat::ResponseError>>>>;

    pub struct Sys {
        b: Behaviour,
        now_ms: u64,
        next_req: u64,
        next_conn: usize,
        /// reference model: ongoing dial-back per peer (with the address dialed and its response probe)
        ongoing: Vec<Option<(Multiaddr, Probe)>>,
        /// reference model: acceptance times (ms) of all accepted probes, per peer
        accepted: Vec<(u8, u64)>,
        /// reference model: endpoint kind of the peer's lasting connection (see Act::AddrChange)
        kind: Vec<u8>,
    }

    fn p(i: u8) -> libp2p_identity::PeerId {
        peer(i + 1)
    }
    fn pidx(id: &libp2p_identity::PeerId) -> Option<u8> {
        (0..NPEERS).find(|i| &p(*i) == id)
    }
    fn observed(i: u8) -> Multiaddr {
        format!("/ip4/8.8.{}.8/tcp/4001", i + 1).parse().unwrap()
    }

    impl Sys {
        /// `server_period_ms`: Config::throttle_server_period (a *client-role* setting that must not
        /// influence the server's throttling of its clients)
        pub fn new(server_period_ms: u64) -> Self {
            mc::vclock::reset();
            let cfg = Config {
                throttle_server_period: Duration::from_millis(server_period_ms),
                boot_delay: Duration::from_secs(1_000_000_000),
                retry_interval: Duration::from_secs(1_000_000_000),
                refresh_interval: Duration::from_secs(1_000_000_000),
                use_connected: false,
                throttle_clients_global_max: GLOBAL_MAX,
                throttle_clients_peer_max: PEER_MAX,
                throttle_clients_period: Duration::from_millis(PERIOD_MS),
                only_global_ips: true,
                ..Config::default()
            };
            let mut b = Behaviour::new(peer(0), cfg);
            // every requester has one inbound connection with a global observed address
            for i in 0..NPEERS {
                let ep = ConnectedPoint::Listener { local_addr: "/ip4/9.9.9.9/tcp/4001".parse().unwrap(), send_back_addr: observed(i) };
                // the swarm first asks for a handler (this is where request-response registers the connection)
                let _ = b.handle_established_inbound_connection(ConnectionId::new_unchecked(i as usize + 1), p(i), &"/ip4/9.9.9.9/tcp/4001".parse().unwrap(), &observed(i));
                b.on_swarm_event(FromSwarm::ConnectionEstablished(ConnectionEstablished { peer_id: p(i), connection_id: ConnectionId::new_unchecked(i as usize + 1), endpoint: &ep, failed_addresses: &[], other_established: 0 }));
            }
            let mut s = Sys { b, now_ms: 0, next_req: 0, next_conn: 100, ongoing: (0..NPEERS).map(|_| None).collect(), accepted: Vec::new(), kind: vec![0; NPEERS as usize] };
            let _ = s.drain();
            s
        }
        /// poll the behaviour to quiescence; returns the peers for which a Dial was issued
        fn drain(&mut self) -> Result<Vec<(libp2p_identity::PeerId, Vec<Multiaddr>)>, String> {
            let w = futures::task::noop_waker();
            let mut cx = Context::from_waker(&w);
            let mut dials = Vec::new();
            let mut announced: Vec<Multiaddr> = Vec::new();
            for _ in 0..64 {
                match self.b.poll(&mut cx) {
                    Poll::Ready(ToSwarm::Dial { opts }) => {
                        let Some(pid) = opts.get_peer_id() else { return Err("dial-without-peer-id :: server issued a Dial without a peer id".into()) };
                        // DialOpts keeps its address list crate-private; the server announces the very list it dials
                        // in InboundProbeEvent::Request ("the addresses that will be attempted to dial"), emitted just before
                        dials.push((pid, std::mem::take(&mut announced)));
                    }
                    Poll::Ready(ToSwarm::GenerateEvent(libp2p_autonat::Event::InboundProbe(libp2p_autonat::InboundProbeEvent::Request { addresses, .. }))) => announced = addresses,
                    Poll::Ready(_) => {}
                    Poll::Pending => return Ok(dials),
                }
            }
            Err("HARNESS behaviour did not quiesce within 64 polls :: ".into())
        }
    }

    fn relay_ip() -> std::net::Ipv4Addr {
        std::net::Ipv4Addr::new(7, 7, 7, 7)
    }
    /// the lasting (inbound) connection's endpoint for an endpoint kind
    fn endpoint(i: u8, kind: u8) -> ConnectedPoint {
        let local: Multiaddr = "/ip4/9.9.9.9/tcp/4001".parse().unwrap();
        match kind {
            0 => ConnectedPoint::Listener { local_addr: local, send_back_addr: observed(i) },
            1 => ConnectedPoint::Listener { local_addr: local, send_back_addr: format!("/ip4/8.9.{}.9/tcp/4001", i + 1).parse().unwrap() },
            _ => {
                let relay = Multiaddr::empty().with(Protocol::Ip4(relay_ip())).with(Protocol::Tcp(4001)).with(Protocol::P2p(peer(9))).with(Protocol::P2pCircuit);
                ConnectedPoint::Listener { local_addr: relay.clone(), send_back_addr: relay.with(Protocol::P2p(p(i))) }
            }
        }
    }
    /// the non-relayed IP the server currently observes for the peer (None while relayed)
    fn observed_ip(i: u8, kind: u8) -> Option<Protocol<'static>> {
        match kind {
            0 => Some(Protocol::Ip4(std::net::Ipv4Addr::new(8, 8, i + 1, 8))),
            1 => Some(Protocol::Ip4(std::net::Ipv4Addr::new(8, 9, i + 1, 9))),
            _ => None,
        }
    }

    impl System for Sys {
        type Action = Act;
        fn actions(&self) -> Vec<Act> {
            let mut v = Vec::new();
            for i in 0..NPEERS {
                v.push(Act::Request(i));
                if self.ongoing[i as usize].is_some() {
                    v.push(Act::DialOk(i));
                    v.push(Act::DialFail(i));
                    v.push(Act::OtherOutbound(i));
                    v.push(Act::OtherInbound(i));
                }
            }
            for i in 0..NPEERS {
                for k in 0..3u8 {
                    if self.kind[i as usize] != k {
                        v.push(Act::AddrChange(i, k));
                    }
                }
            }
            v.push(Act::Advance(PERIOD_MS / 2));
            v.push(Act::Advance(PERIOD_MS));
            v
        }
        fn step(&mut self, a: &Act) -> Result<(), String> {
            match a {
                Act::Advance(ms) => {
                    mc::vclock::advance(Duration::from_millis(*ms));
                    self.now_ms += ms;
                    let d = self.drain()?;
                    if !d.is_empty() {
                        return Err(format!("dial-without-request :: a Dial for {:?} was issued by a clock advance", d.iter().map(|x| pidx(&x.0)).collect::<Vec<_>>()));
                    }
                }
                Act::Request(i) => {
                    let n = self.next_req;
                    self.next_req += 1;
                    // the requester asks for its own (claimed) address; port differs from the observed one
                    let demanded: Multiaddr = "/ip4/1.2.3.4/tcp/4001".parse().unwrap();
                    let (ev, mut probe) = Behaviour::verif_inbound_request(n, p(*i), vec![demanded]);
                    self.b.on_connection_handler_event(p(*i), ConnectionId::new_unchecked(*i as usize + 1), ev);
                    let dials = self.drain()?;
                    let was_ongoing = self.ongoing[*i as usize].is_some();
                    let win = |t: u64, now: u64| now - t < PERIOD_MS;
                    let peer_recent = self.accepted.iter().filter(|(q, t)| q == i && win(*t, self.now_ms)).count();
                    let all_recent = self.accepted.iter().filter(|(_, t)| win(*t, self.now_ms)).count();
                    if dials.len() > 1 || dials.iter().any(|(pid, _)| pid != &p(*i)) {
                        return Err(format!("dial-for-other-peer :: request of peer {i} produced dials for {:?}", dials.iter().map(|x| pidx(&x.0)).collect::<Vec<_>>()));
                    }
                    let resp = probe();
                    let obs = observed_ip(*i, self.kind[*i as usize]);
                    if let Some((_, addrs)) = dials.first() {
                        let Some(ip) = &obs else {
                            return Err(format!("dial-back-with-only-a-relayed-connection :: peer {i}: its only connection is relayed (no observed non-relayed IP) but the server dials {addrs:?}"));
                        };
                        DIALS_DIRECT[self.kind[*i as usize] as usize].fetch_add(1, SeqCst);
                        if addrs.is_empty() {
                            return Err(format!("dial-back-without-announced-addresses :: peer {i}: a Dial was issued without an InboundProbeEvent::Request announcing its addresses"));
                        }
                        for ad in addrs {
                            if ad.iter().any(|c| matches!(c, Protocol::Ip4(_) | Protocol::Ip6(_)) && &c != ip) || !ad.iter().any(|c| &c == ip) {
                                return Err(format!("dial-back-to-unobserved-ip :: peer {i}: would dial {ad} but the observed non-relayed IP of the requester is {ip}"));
                            }
                            if ad.iter().any(|c| matches!(c, Protocol::P2pCircuit)) || ad.iter().last() != Some(Protocol::P2p(p(*i))) {
                                return Err(format!("dial-back-address-shape :: peer {i}: would dial {ad} (relay hop or not ending with the requester's peer id)"));
                            }
                        }
                    }
                    if dials.len() == 1 {
                        ACCEPTED.fetch_add(1, SeqCst);
                        if was_ongoing {
                            return Err(format!("second-dial-back-while-one-is-ongoing :: peer {i}: a new dial-back was started although the previous one has not finished"));
                        }
                        if peer_recent + 1 > PEER_MAX {
                            return Err(format!("per-peer-throttle-exceeded :: peer {i}: probe accepted at {} ms although {peer_recent} probe(s) of this peer were accepted within the last {PERIOD_MS} ms (max {PEER_MAX}); accepted {:?}", self.now_ms, self.accepted));
                        }
                        if all_recent + 1 > GLOBAL_MAX {
                            return Err(format!("global-throttle-exceeded :: probe of peer {i} accepted at {} ms although {all_recent} probes were accepted within the last {PERIOD_MS} ms (max {GLOBAL_MAX}); accepted {:?}", self.now_ms, self.accepted));
                        }
                        if self.accepted.iter().any(|(q, _)| q == i) {
                            ACCEPTED_AFTER_WINDOW.fetch_add(1, SeqCst);
                        }
                        if resp.is_some() {
                            return Err(format!("accepted-and-answered :: peer {i}: a dial-back was started and the request was answered at once with {resp:?}"));
                        }
                        self.accepted.push((*i, self.now_ms));
                        self.ongoing[*i as usize] = Some((dials[0].1[0].clone(), probe));
                    } else {
                        // the limits are per clients period: a refusal needs a reason. Probes of age <= period
                        // (closed window, the strict reading) may still count; older ones may not.
                        let cwin = |t: u64, now: u64| now - t <= PERIOD_MS;
                        let peer_c = self.accepted.iter().filter(|(q, t)| q == i && cwin(*t, self.now_ms)).count();
                        let all_c = self.accepted.iter().filter(|(_, t)| cwin(*t, self.now_ms)).count();
                        if obs.is_none() {
                            REFUSED_RELAYED.fetch_add(1, SeqCst);
                        }
                        if !was_ongoing && peer_c < PEER_MAX && all_c < GLOBAL_MAX && obs.is_some() {
                            return Err(format!("request-refused-without-throttle-reason :: peer {i}: refused ({resp:?}) at {} ms although no dial-back is ongoing and only {peer_c}/{PEER_MAX} probes of the peer and {all_c}/{GLOBAL_MAX} in total were accepted within the last {PERIOD_MS} ms; accepted {:?}", self.now_ms, self.accepted));
                        }
                        if was_ongoing {
                            REFUSED_ONGOING.fetch_add(1, SeqCst);
                        } else if all_recent >= GLOBAL_MAX {
                            REFUSED_GLOBAL.fetch_add(1, SeqCst);
                        } else if peer_recent >= PEER_MAX {
                            REFUSED_PEER.fetch_add(1, SeqCst);
                        }
                        match resp {
                            Some(Some(Err(_))) => {}
                            other => return Err(format!("refused-request-without-error-response :: peer {i}: no dial-back was started and the response channel holds {other:?} (expected an error response such as DialRefused)")),
                        }
                    }
                }
                Act::AddrChange(i, k) => {
                    let old = endpoint(*i, self.kind[*i as usize]);
                    let new = endpoint(*i, *k);
                    self.b.on_swarm_event(FromSwarm::AddressChange(libp2p_swarm::behaviour::AddressChange { peer_id: p(*i), connection_id: ConnectionId::new_unchecked(*i as usize + 1), old: &old, new: &new }));
                    self.kind[*i as usize] = *k;
                    ADDR_CHANGES.fetch_add(1, SeqCst);
                    let d = self.drain()?;
                    if !d.is_empty() {
                        return Err(format!("dial-without-request :: a Dial was issued by {a:?}"));
                    }
                }
                Act::OtherOutbound(i) | Act::OtherInbound(i) => {
                    let conn = ConnectionId::new_unchecked(self.next_conn);
                    self.next_conn += 1;
                    let other: Multiaddr = format!("/ip4/8.8.{}.8/tcp/9999", i + 1).parse::<Multiaddr>().unwrap();
                    let ep = if matches!(a, Act::OtherOutbound(_)) {
                        let address = other.clone().with(Protocol::P2p(p(*i)));
                        let _ = self.b.handle_established_outbound_connection(conn, p(*i), &address, Endpoint::Dialer, PortUse::Reuse);
                        ConnectedPoint::Dialer { address, role_override: Endpoint::Dialer, port_use: PortUse::Reuse }
                    } else {
                        let local: Multiaddr = "/ip4/9.9.9.9/tcp/4001".parse().unwrap();
                        let _ = self.b.handle_established_inbound_connection(conn, p(*i), &local, &other);
                        ConnectedPoint::Listener { local_addr: local, send_back_addr: other.clone() }
                    };
                    self.b.on_swarm_event(FromSwarm::ConnectionEstablished(ConnectionEstablished { peer_id: p(*i), connection_id: conn, endpoint: &ep, failed_addresses: &[], other_established: 1 }));
                    self.b.on_swarm_event(FromSwarm::ConnectionClosed(ConnectionClosed { peer_id: p(*i), connection_id: conn, endpoint: &ep, cause: None, remaining_established: 1 }));
                    let d = self.drain()?;
                    if !d.is_empty() {
                        return Err(format!("dial-without-request :: a Dial was issued by {a:?}"));
                    }
                    UNRELATED_CONNS.fetch_add(1, SeqCst);
                    // the ongoing dial-back is not finished by an unrelated connection: its request must
                    // neither be dropped (silence) nor answered on behalf of an address that was not dialed
                    if let Some((_, probe)) = self.ongoing[*i as usize].as_mut() {
                        match probe() {
                            None => {}
                            Some(None) => return Err(format!("ongoing-request-dropped-without-response :: {a:?}: the request whose dial-back is still in flight lost its response channel (no response will ever be sent)")),
                            Some(Some(r)) => return Err(format!("ongoing-request-answered-by-unrelated-connection :: {a:?}: the request whose dial-back is still in flight was answered with {r:?}")),
                        }
                    }
                }
                Act::DialOk(i) | Act::DialFail(i) => {
                    let Some((addr, mut probe)) = self.ongoing[*i as usize].take() else { return Ok(()) };
                    let conn = ConnectionId::new_unchecked(self.next_conn);
                    self.next_conn += 1;
                    if matches!(a, Act::DialOk(_)) {
                        let ep = ConnectedPoint::Dialer { address: addr.clone(), role_override: Endpoint::Dialer, port_use: PortUse::New };
                        let _ = self.b.handle_established_outbound_connection(conn, p(*i), &addr, Endpoint::Dialer, PortUse::New);
                        self.b.on_swarm_event(FromSwarm::ConnectionEstablished(ConnectionEstablished { peer_id: p(*i), connection_id: conn, endpoint: &ep, failed_addresses: &[], other_established: 1 }));
                        // the dial-back connection is closed again (keeps the state space finite)
                        self.b.on_swarm_event(FromSwarm::ConnectionClosed(ConnectionClosed { peer_id: p(*i), connection_id: conn, endpoint: &ep, cause: None, remaining_established: 1 }));
                    } else {
                        let err = DialError::Transport(vec![]);
                        self.b.on_swarm_event(FromSwarm::DialFailure(DialFailure { peer_id: Some(p(*i)), error: &err, connection_id: conn }));
                    }
                    let d = self.drain()?;
                    if !d.is_empty() {
                        return Err(format!("dial-without-request :: a Dial was issued when the dial-back of peer {i} finished"));
                    }
                    // harness sanity (the dial-back the model believes in must be the one the server tracks)
                    // exactly one response: the finished dial-back answers the request now
                    match probe() {
                        Some(Some(_)) => {}
                        other => return Err(format!("dial-back-finished-without-response :: peer {i}: {a:?} (address {addr}) finished the dial-back but the request's response channel holds {other:?}")),
                    }
                }
            }
            Ok(())
        }
        fn canon(&self) -> Vec<u8> {
            let og: Vec<bool> = self.ongoing.iter().map(|o| o.is_some()).collect();
            let mut acc: Vec<(u8, u64)> = self.accepted.iter().map(|(q, t)| (*q, self.now_ms - t)).filter(|(_, age)| *age <= PERIOD_MS).collect();
            acc.sort();
            let ever: Vec<bool> = (0..NPEERS).map(|i| self.accepted.iter().any(|(q, _)| *q == i)).collect();
            let (ongoing, throttled) = self.b.verif_server_state();
            let ongoing: Vec<Option<u8>> = ongoing.iter().map(pidx).collect();
            let throttled: Vec<(Option<u8>, u128)> = throttled.iter().map(|(q, age)| (pidx(q), (*age).min(PERIOD_MS as u128 + 1))).collect();
            format!("{og:?}|{acc:?}|{ever:?}|{ongoing:?}|{throttled:?}|{:?}", self.kind).into_bytes()
        }
        fn nontrivial(&self) -> bool {
            self.accepted.iter().any(|(_, t)| self.now_ms - t < PERIOD_MS)
        }
    }

    pub fn replay(case: &Value, out: &mut Outcome) {
        let sp = case["cfg"]["server_period_ms"].as_u64().unwrap_or(90_000);
        if let Err(m) = bfs::replay_history(Sys::new(sp), case) {
            out.violation(bfs::signature_of(&m), m, case.clone());
        }
    }

    pub fn run(ctx: &Ctx, out: &mut Outcome) {
        let depth = ctx.tier.pick(8, 11);
        let ddepth = ctx.tier.pick(4, 5);
        // Config::throttle_server_period belongs to the client role; the server-side limits are
        // judged with it below and above the clients period
        for sp in [0u64, 5_000] {
            let cfg = json!({"part": "throttle", "limits": "global 2 / peer 1 / period 1000 ms", "server_period_ms": sp});
            let (st, v) = bfs::bfs_replay(|| Sys::new(sp), depth, 2_000_000);
            bfs::record(out, &cfg, &st, &v);
            out.count("throttle_bfs_states", st.states);
            out.count("throttle_bfs_transitions", st.transitions);
            let (n, capped, v2) = bfs::dfs_all(|| Sys::new(sp), ddepth, 3_000_000);
            out.count("throttle_dfs_companion_sequences", n);
            out.evaluations += n;
            out.traces += n;
            if capped {
                out.caps.push(format!("throttle dfs companion capped at {n} sequences"));
            }
            bfs::record(out, &cfg, &Default::default(), &v2);
        }
        out.count("throttle_probes_accepted", ACCEPTED.load(SeqCst));
        out.count("throttle_refused_dial_back_ongoing", REFUSED_ONGOING.load(SeqCst));
        out.count("throttle_refused_per_peer_limit", REFUSED_PEER.load(SeqCst));
        out.count("throttle_refused_global_limit", REFUSED_GLOBAL.load(SeqCst));
        out.count("throttle_accepted_again_after_window", ACCEPTED_AFTER_WINDOW.load(SeqCst));
        out.count("throttle_unrelated_connections_during_dial_back", UNRELATED_CONNS.load(SeqCst));
        out.count("address_changes", ADDR_CHANGES.load(SeqCst));
        out.count("requests_refused_while_only_relayed", REFUSED_RELAYED.load(SeqCst));
        out.count("dial_backs_to_first_observed_ip", DIALS_DIRECT[0].load(SeqCst));
        out.count("dial_backs_to_changed_observed_ip", DIALS_DIRECT[1].load(SeqCst));
        if REFUSED_RELAYED.load(SeqCst) == 0 || DIALS_DIRECT[1].load(SeqCst) == 0 {
            out.machinery("vacuity (observed address): exploration never refused a relayed-only requester / never dialed a changed observed IP");
        }
        if ACCEPTED.load(SeqCst) == 0 || REFUSED_ONGOING.load(SeqCst) == 0 || REFUSED_PEER.load(SeqCst) == 0 || REFUSED_GLOBAL.load(SeqCst) == 0 || ACCEPTED_AFTER_WINDOW.load(SeqCst) == 0 || UNRELATED_CONNS.load(SeqCst) == 0 {
            out.machinery("vacuity (throttling): exploration did not reach every one of: accepted probe / refusal while ongoing / per-peer limit / global limit / re-acceptance after the window");
        }
        out.notes.push(format!("throttling part: bfs depth {depth}, dfs companion depth {ddepth}, each with throttle_server_period 0 and 5 s"));
    }
}
