//! C50 — AutoNAT v1 dial-back addresses (E3: complete enumeration of demanded address lists
//! through the real `filter_valid_addrs`, via hook).
//!
//! Oracle (statement): every address the server would dial has *all* its IP components equal to
//! the observed IP of the requester, contains no relay hop (`p2p-circuit`) and ends with
//! `/p2p/<requester>`. With no observed IP nothing may be dialed. The throttling part of the
//! statement (one dial-back per peer, per-peer / global limits) is NOT covered by this check.

use kit::ids::peer;
use libp2p_autonat::Behaviour;
use mc::{enumerate, json, Ctx, Meta, Outcome, Value};
use multiaddr::{Multiaddr, Protocol};
use std::net::{Ipv4Addr, Ipv6Addr};

pub const META: Meta = Meta {
    level: "exploration",
    rule: "every demanded address of 1..=4 components over {ip4 a, ip4 b, ip6 c, dns4, tcp, udp, p2p requester, p2p other, p2p-circuit} (7380 addresses) as a single-element list, and every ordered pair of addresses of <= 2 components (8100 lists), each against observed address in {ip4, ip6, dns-only}, through the real filter_valid_addrs. Non-trivial = distinct (observed, list) cases for which at least one address is returned.",
    explanation: "Complete enumeration (E3) over the stated component alphabet; every returned address is checked component by component against the statement.",
    assumptions: &["component alphabet of 9 representatives, <= 4 components per address, <= 2 addresses per request", "throttling / one-dial-back-per-peer part of C50 not explored (not built)"],
};

fn comp(i: usize) -> Protocol<'static> {
    match i {
        0 => Protocol::Ip4(Ipv4Addr::new(1, 1, 1, 1)),
        1 => Protocol::Ip4(Ipv4Addr::new(2, 2, 2, 2)),
        2 => Protocol::Ip6(Ipv6Addr::new(0x2001, 0xdb8, 0, 0, 0, 0, 0, 3)),
        3 => Protocol::Dns4("example.com".into()),
        4 => Protocol::Tcp(4001),
        5 => Protocol::Udp(4001),
        6 => Protocol::P2p(peer(1)),
        7 => Protocol::P2p(peer(2)),
        _ => Protocol::P2pCircuit,
    }
}
const NCOMP: usize = 9;

fn build(idx: &[usize]) -> Multiaddr {
    let mut m = Multiaddr::empty();
    for &i in idx {
        m.push(comp(i));
    }
    m
}

fn observed(o: usize) -> Multiaddr {
    match o {
        0 => "/ip4/9.9.9.9/tcp/30333".parse().unwrap(),
        1 => "/ip6/2001:db8::9/tcp/30333".parse().unwrap(),
        _ => "/dns4/requester.example/tcp/30333".parse().unwrap(),
    }
}

/// returns Ok(number of returned addresses) or the violation
fn case(o: usize, list: &[Vec<usize>]) -> Result<usize, String> {
    let obs = observed(o);
    let obs_ip = obs.iter().find(|p| matches!(p, Protocol::Ip4(_) | Protocol::Ip6(_)));
    let demanded: Vec<Multiaddr> = list.iter().map(|l| build(l)).collect();
    let out = mc::catch(|| Behaviour::verif_filter_valid_addrs(peer(1), demanded.clone(), &obs)).map_err(|p| format!("filter-panic :: {p}"))?;
    for a in &out {
        let Some(ip) = &obs_ip else {
            return Err(format!("dial-without-observed-ip :: observed {obs} has no IP but {a} would be dialed"));
        };
        let ips: Vec<Protocol> = a.iter().filter(|p| matches!(p, Protocol::Ip4(_) | Protocol::Ip6(_))).collect();
        if let Some(pos) = ips.iter().position(|p| p != ip) {
            let which = if pos == 0 { "first" } else { "later" };
            return Err(format!("foreign-ip-component-{which} :: demanded {demanded:?}, observed {obs}: would dial {a} whose IP component #{pos} ({}) is not the observed IP", ips[pos]));
        }
        if ips.is_empty() {
            return Err(format!("dial-without-ip-component :: would dial {a} which has no IP component (observed {obs})"));
        }
        if a.iter().any(|p| matches!(p, Protocol::P2pCircuit)) {
            return Err(format!("relay-hop :: would dial {a} (contains p2p-circuit)"));
        }
        if a.iter().last() != Some(Protocol::P2p(peer(1))) {
            return Err(format!("not-ending-with-requester-peer-id :: demanded {demanded:?}: would dial {a}, which does not end with /p2p/<requester>"));
        }
    }
    Ok(out.len())
}

pub fn run(ctx: &Ctx) -> Outcome {
    let mut out = Outcome::default();
    if let Some(c) = &ctx.replay {
        out.evaluations = 1;
        let o = c["observed"].as_u64().unwrap_or(0) as usize;
        let list: Vec<Vec<usize>> = serde_json::from_value(c["list"].clone()).unwrap_or_default();
        if let Err(m) = case(o, &list) {
            out.violation(mc::bfs::signature_of(&m), m, c.clone());
        }
        return out;
    }
    let maxlen = ctx.tier.pick(4, 5);
    let mut accepted = 0u64;
    let mut rejected = 0u64;
    let mut run_case = |o: usize, list: Vec<Vec<usize>>, out: &mut Outcome| {
        out.evaluations += 1;
        match case(o, &list) {
            Ok(n) => {
                if n > 0 {
                    accepted += 1;
                    out.nontrivial(&format!("{o}{list:?}"));
                    if accepted % 997 == 1 {
                        out.sample(json!({"observed": observed(o).to_string(), "demanded": list.iter().map(|l| build(l).to_string()).collect::<Vec<_>>(), "returned": n}));
                    }
                } else {
                    rejected += 1;
                }
            }
            Err(m) => {
                out.nontrivial(&format!("{o}{list:?}"));
                let case: Value = json!({"observed": o, "list": list});
                out.violation(mc::bfs::signature_of(&m), m, case);
            }
        }
    };
    for o in 0..3 {
        for len in 1..=maxlen {
            enumerate::sequences(NCOMP, len, |idx| run_case(o, vec![idx.to_vec()], &mut out));
        }
        let mut small: Vec<Vec<usize>> = Vec::new();
        for len in 1..=2 {
            enumerate::sequences(NCOMP, len, |idx| small.push(idx.to_vec()));
        }
        for a in &small {
            for b in &small {
                run_case(o, vec![a.clone(), b.clone()], &mut out);
            }
        }
    }
    out.count("lists_with_dialable_address", accepted);
    out.count("lists_fully_rejected", rejected);
    if accepted == 0 || rejected == 0 {
        out.machinery("vacuity: enumeration never produced both a dialable and a fully rejected list");
    }
    out.notes.push(format!("addresses of <= {maxlen} components; throttling part of the statement not explored"));
    out
}
