//! C54 — peer store: explicit addresses survive the dial-failure paths, records and peers are
//! bounded, events correspond exactly to changes (E2: BFS over histories of the real
//! `MemoryStore` through its public API + `Store::on_swarm_event`, + un-deduplicated DFS companion).
//!
//! Oracle (no more than the statement):
//! * after every step: every record holds <= record_capacity addresses and the store holds
//!   <= peer_capacity peers;
//! * the events drained after a step are replayed on the previous contents: an `Added` must be
//!   an actual addition, a `Removed` an actual removal; whatever is present afterwards must be
//!   accounted for by the previous contents + events;
//! * an address that vanished *without* a `Removed` event is accepted only as a capacity
//!   eviction (record over capacity after an addition / store over capacity after a new peer) —
//!   the statement does not say whether evictions emit events, both are accepted;
//! * in the automatic paths (swarm events) no `Removed`/silent loss may concern an address that
//!   was added explicitly (unless it is a capacity eviction);
//! * explicit `remove_address` of a present address must remove it, return true and emit.
//! Whether a non-permanent failed address *is* removed is left to the store (not in the statement).

use futures::task::noop_waker;
use kit::ids::{addr, peer};
use libp2p_core::{transport::TransportError, ConnectedPoint, Endpoint};
use libp2p_peer_store::memory_store::{Config, Event, MemoryStore};
use libp2p_peer_store::Store;
use libp2p_swarm::behaviour::{ConnectionEstablished, DialFailure, NewExternalAddrOfPeer};
use libp2p_swarm::{ConnectionId, DialError, FromSwarm};
use mc::bfs::{self, System};
use mc::{json, Ctx, Meta, Outcome};
use multiaddr::Multiaddr;
use serde::{Deserialize, Serialize};
use std::collections::{BTreeMap, BTreeSet};
use std::num::NonZeroUsize;
use std::task::{Context, Poll};

pub const META: Meta = Meta {
    level: "model_checking",
    rule: "BFS over all histories of {add_address, remove_address, NewExternalAddrOfPeer, ConnectionEstablished(dialer|listener, endpoint addr, failed set), DialFailure(peer|none; Transport(set) | WrongPeerId(obtained, addr) | Aborted), insert_custom_data(peer), take_custom_data(peer)} over 3 peers x 3 addresses on the real MemoryStore (record_capacity 2 with peer_capacity 2 and with peer_capacity 3, remove_addr_on_dial_error on, custom data type u8); states deduplicated on (store contents in iteration order, reference permanent set, the store's private permanent flags via hook). Non-trivial = states in which at least one explicitly added address is stored.",
    explanation: "Every step's drained events are replayed against the previous contents and compared with the store's new contents; silent losses are accepted only as capacity evictions; explicit addresses must survive the automatic paths; size bounds checked in every state. Two passes: strict, and one tolerating a store that is one peer over capacity (so that this defect, if present, cannot hide others); un-deduplicated DFS companion to a smaller depth.",
    assumptions: &["3 peers / 3 addresses / capacities 2/2 and 2/3 (small-scope hypothesis)", "whether a capacity eviction emits PeerAddressRemoved is left open by the statement"],
};

const RCAP: usize = 2;

#[derive(Clone, Debug, Serialize, Deserialize, PartialEq)]
pub enum Act {
    Add(u8, u8),
    Remove(u8, u8),
    NewExt(u8, u8),
    /// peer, endpoint address, failed-address mask, dialer?
    Conn(u8, u8, u8, bool),
    /// peer (3 = None), mask of failed addresses
    FailTransport(u8, u8),
    /// expected peer, obtained peer, address
    FailWrongPeer(u8, u8, u8),
    FailAborted(u8),
    /// insert_custom_data(peer) — also as the first action that touches a peer
    InsertData(u8),
    /// take_custom_data(peer)
    TakeData(u8),
}

fn a(i: u8) -> Multiaddr {
    addr(&format!("/ip4/10.0.0.{}/tcp/1", i + 1))
}
fn aidx(m: &Multiaddr) -> u8 {
    (0..3u8).find(|i| &a(*i) == m).unwrap_or(99)
}
fn pidx(p: &libp2p_identity::PeerId) -> u8 {
    (1..=3u8).find(|i| &peer(*i) == p).map(|i| i - 1).unwrap_or(99)
}
fn p(i: u8) -> libp2p_identity::PeerId {
    peer(i + 1)
}
fn mask_addrs(m: u8) -> Vec<Multiaddr> {
    (0..3u8).filter(|i| m & (1 << i) != 0).map(a).collect()
}

type Contents = Vec<(u8, Vec<u8>)>; // store iteration order: (peer, addresses most-recent first)

pub struct Sys {
    store: MemoryStore<u8>,
    /// which of the store's two record constructors created the peer's current record (true =
    /// insert_custom_data, false = an address path); part of the canonical key because the record's
    /// own capacity is private state fixed at construction
    by_data: BTreeMap<u8, bool>,
    /// peer_capacity of this configuration (record_capacity is RCAP = 2 in both)
    pcap: usize,
    /// tolerate peers == PCAP + 1 (second pass)
    tolerant: bool,
    /// previous contents (as observed after the last step)
    prev: Contents,
    /// model: explicitly added and still present
    perm: BTreeSet<(u8, u8)>,
    pub auto_removals: u64,
    pub perm_survived: u64,
    pub evictions: u64,
}

impl Sys {
    pub fn new(tolerant: bool, pcap: usize) -> Self {
        #[allow(non_snake_case)]
        let PCAP = pcap;
        let cfg = Config::default()
            .set_record_capacity(NonZeroUsize::new(RCAP).unwrap())
            .set_peer_capacity(NonZeroUsize::new(PCAP).unwrap())
            .set_remove_addr_on_dial_error(true);
        Sys { store: MemoryStore::new(cfg), by_data: BTreeMap::new(), pcap, tolerant, prev: Vec::new(), perm: BTreeSet::new(), auto_removals: 0, perm_survived: 0, evictions: 0 }
    }
    fn contents(&self) -> Contents {
        self.store.record_iter().map(|(pid, r)| (pidx(pid), r.addresses().map(aidx).collect())).collect()
    }
    fn drain(&mut self) -> Vec<Event> {
        let w = noop_waker();
        let mut cx = Context::from_waker(&w);
        let mut v = Vec::new();
        while let Poll::Ready(e) = self.store.poll(&mut cx) {
            v.push(e);
            if v.len() > 64 {
                break;
            }
        }
        v
    }
}

impl System for Sys {
    type Action = Act;
    fn actions(&self) -> Vec<Act> {
        let mut v = Vec::new();
        for pi in 0..3u8 {
            for ai in 0..3u8 {
                v.push(Act::Add(pi, ai));
                v.push(Act::Remove(pi, ai));
                v.push(Act::NewExt(pi, ai));
            }
        }
        for pi in 0..3u8 {
            for e in 0..3u8 {
                for m in [0u8, 1, 2, 4, 7] {
                    v.push(Act::Conn(pi, e, m, true));
                }
            }
            v.push(Act::Conn(pi, 0, 7, false));
        }
        for pi in 0..4u8 {
            for m in [1u8, 2, 4, 7] {
                v.push(Act::FailTransport(pi, m));
            }
        }
        for pi in 0..3u8 {
            for q in 0..3u8 {
                if q != pi {
                    for ai in 0..3u8 {
                        v.push(Act::FailWrongPeer(pi, q, ai));
                    }
                }
            }
            v.push(Act::FailAborted(pi));
            v.push(Act::InsertData(pi));
            v.push(Act::TakeData(pi));
        }
        v
    }

    fn step(&mut self, act: &Act) -> Result<(), String> {
        #[allow(non_snake_case)]
        let PCAP = self.pcap;
        let before: BTreeMap<u8, BTreeSet<u8>> = self.prev.iter().map(|(pi, l)| (*pi, l.iter().copied().collect())).collect();
        let explicit = matches!(act, Act::Add(..) | Act::Remove(..));
        let had_data: Vec<bool> = (0..3u8).map(|i| self.store.get_custom_data(&p(i)).is_some()).collect();
        let mut ret: Option<bool> = None;
        match act {
            Act::Add(pi, ai) => ret = Some(self.store.add_address(&p(*pi), &a(*ai))),
            Act::Remove(pi, ai) => ret = Some(self.store.remove_address(&p(*pi), &a(*ai))),
            Act::NewExt(pi, ai) => {
                let ad = a(*ai);
                self.store.on_swarm_event(&FromSwarm::NewExternalAddrOfPeer(NewExternalAddrOfPeer { peer_id: p(*pi), addr: &ad }));
            }
            Act::Conn(pi, e, m, dialer) => {
                let ep = if *dialer {
                    ConnectedPoint::Dialer { address: a(*e), role_override: Endpoint::Dialer, port_use: libp2p_core::transport::PortUse::Reuse }
                } else {
                    ConnectedPoint::Listener { local_addr: addr("/ip4/10.9.9.9/tcp/9"), send_back_addr: a(*e) }
                };
                let failed = mask_addrs(*m);
                self.store.on_swarm_event(&FromSwarm::ConnectionEstablished(ConnectionEstablished {
                    peer_id: p(*pi),
                    connection_id: ConnectionId::new_unchecked(1),
                    endpoint: &ep,
                    failed_addresses: &failed,
                    other_established: 0,
                }));
            }
            Act::FailTransport(pi, m) => {
                let err = DialError::Transport(mask_addrs(*m).into_iter().map(|x| (x, TransportError::Other(std::io::Error::other("x")))).collect());
                let peer_id = if *pi < 3 { Some(p(*pi)) } else { None };
                self.store.on_swarm_event(&FromSwarm::DialFailure(DialFailure { peer_id, error: &err, connection_id: ConnectionId::new_unchecked(2) }));
            }
            Act::FailWrongPeer(pi, q, ai) => {
                let err = DialError::WrongPeerId { obtained: p(*q), address: a(*ai) };
                self.store.on_swarm_event(&FromSwarm::DialFailure(DialFailure { peer_id: Some(p(*pi)), error: &err, connection_id: ConnectionId::new_unchecked(3) }));
            }
            Act::InsertData(pi) => self.store.insert_custom_data(&p(*pi), 7u8),
            Act::TakeData(pi) => {
                let got = self.store.take_custom_data(&p(*pi));
                if got.is_some() != had_data[*pi as usize] {
                    return Err(format!("take-custom-data-result :: {act:?} returned {got:?}, data present before: {}", had_data[*pi as usize]));
                }
            }
            Act::FailAborted(pi) => {
                let err = DialError::Aborted;
                self.store.on_swarm_event(&FromSwarm::DialFailure(DialFailure { peer_id: Some(p(*pi)), error: &err, connection_id: ConnectionId::new_unchecked(4) }));
            }
        }
        let events = self.drain();
        let after_list = self.contents();
        let after: BTreeMap<u8, BTreeSet<u8>> = after_list.iter().map(|(pi, l)| (*pi, l.iter().copied().collect())).collect();
        if after_list.iter().any(|(pi, l)| *pi == 99 || l.contains(&99)) {
            return Err(format!("unknown-content :: store holds an unknown peer/address: {after_list:?}"));
        }
        // addresses_of_peer must agree with record_iter
        for pi in 0..3u8 {
            let got: Option<Vec<u8>> = self.store.addresses_of_peer(&p(pi)).map(|it| it.map(aidx).collect());
            let want = after_list.iter().find(|(q, _)| *q == pi).map(|(_, l)| l.clone());
            if got != want {
                return Err(format!("getter-disagreement :: addresses_of_peer({pi}) = {got:?}, record_iter = {want:?}"));
            }
        }

        // ---- replay the events on the previous contents
        let mut cur = before.clone();
        let mut peer_evictions = 0usize;
        let mut self_evicted = false;
        for ev in &events {
            match ev {
                Event::PeerAddressAdded { peer_id, address, .. } => {
                    let (pi, ai) = (pidx(peer_id), aidx(address));
                    if self.tolerant && before.len() > PCAP && cur.get(&pi).map(|c| c.contains(&ai)).unwrap_or(false) && !after.get(&pi).map(|n| n.iter().any(|x| *x != ai)).unwrap_or(false) {
                        // tolerant pass only: the store was over capacity on entry, trimmed this very
                        // peer's record and re-created it (consequence of the peer-capacity defect)
                        cur.remove(&pi);
                        self_evicted = true;
                        peer_evictions += 1;
                        self.evictions += 1;
                    }
                    if !cur.entry(pi).or_default().insert(ai) {
                        return Err(format!("added-event-without-addition :: {act:?}: PeerAddressAdded({pi},{ai}) but the address was already stored; before {:?}", self.prev));
                    }
                }
                Event::PeerAddressRemoved { peer_id, address } => {
                    let (pi, ai) = (pidx(peer_id), aidx(address));
                    if !cur.get_mut(&pi).map(|s| s.remove(&ai)).unwrap_or(false) {
                        return Err(format!("removed-event-without-removal :: {act:?}: PeerAddressRemoved({pi},{ai}) but the address was not stored; before {:?}", self.prev));
                    }
                    if !explicit && self.perm.contains(&(pi, ai)) {
                        return Err(format!("explicit-address-removed-automatically :: {act:?} removed explicitly added ({pi},{ai}); before {:?}", self.prev));
                    }
                    if explicit && *act != Act::Remove(pi, ai) {
                        return Err(format!("unrelated-removal :: {act:?} emitted PeerAddressRemoved({pi},{ai})"));
                    }
                    if !explicit {
                        self.auto_removals += 1;
                    }
                }
            }
        }
        cur.retain(|_, s| !s.is_empty());
        // everything present must be accounted for
        for (pi, s) in &after {
            for ai in s {
                if !cur.get(pi).map(|c| c.contains(ai)).unwrap_or(false) {
                    return Err(format!("addition-without-event :: {act:?}: ({pi},{ai}) is stored now, was not before and no PeerAddressAdded was emitted; before {:?} events {events:?}", self.prev));
                }
            }
        }
        // silent losses: only capacity evictions
        // every peer that held a record before, gained one through an event, or holds one now (records that
        // carry only custom data count as records): that many records competed for PCAP places
        let mut holders: BTreeSet<u8> = before.keys().copied().collect();
        holders.extend(cur.keys().copied());
        holders.extend(after.keys().copied());
        let peers_over = holders.len().saturating_sub(PCAP);
        for (pi, s) in &cur {
            let now = after.get(pi).cloned().unwrap_or_default();
            let lost: Vec<u8> = s.difference(&now).copied().collect();
            if lost.is_empty() {
                continue;
            }
            let record_over = s.len().saturating_sub(RCAP);
            // (a) record-level eviction: at most as many as the record is over capacity
            let record_ok = lost.len() <= record_over;
            // (b) peer-level eviction: everything the peer had before this step is gone
            let old: BTreeSet<u8> = before.get(pi).cloned().unwrap_or_default();
            let old_kept: BTreeSet<u8> = old.intersection(s).copied().collect();
            let peer_gone = !old_kept.is_empty() && old_kept.iter().all(|x| !now.contains(x)) && lost.iter().all(|x| old_kept.contains(x));
            if record_ok {
                self.evictions += 1;
            } else if peer_gone {
                peer_evictions += 1;
                self.evictions += 1;
            } else {
                let permlost: Vec<&u8> = lost.iter().filter(|x| self.perm.contains(&(*pi, **x))).collect();
                if !explicit && !permlost.is_empty() {
                    return Err(format!("explicit-address-lost-silently :: {act:?}: explicitly added ({pi},{permlost:?}) vanished without event or capacity reason; before {:?} after {after_list:?}", self.prev));
                }
                return Err(format!("removal-without-event :: {act:?}: ({pi},{lost:?}) vanished without PeerAddressRemoved and without capacity reason; before {:?} after {after_list:?}", self.prev));
            }
        }
        if peer_evictions > peers_over {
            return Err(format!("peer-lost-without-capacity-reason :: {act:?}: {peer_evictions} peer record(s) vanished but the store was at most {peers_over} over capacity; before {:?} after {after_list:?}", self.prev));
        }
        // explicit operations: result and effect
        match act {
            Act::Add(pi, ai) => {
                let was = before.get(pi).map(|s| s.contains(ai)).unwrap_or(false) && !self_evicted;
                if ret != Some(!was) {
                    return Err(format!("add-result :: {act:?} returned {ret:?}, address present before: {was}"));
                }
                if !after.get(pi).map(|s| s.contains(ai)).unwrap_or(false) {
                    return Err(format!("add-not-stored :: {act:?}: address not stored afterwards; after {after_list:?}"));
                }
            }
            Act::Remove(pi, ai) => {
                let was = before.get(pi).map(|s| s.contains(ai)).unwrap_or(false);
                if ret != Some(was) {
                    return Err(format!("remove-result :: {act:?} returned {ret:?}, address present before: {was}"));
                }
                if after.get(pi).map(|s| s.contains(ai)).unwrap_or(false) {
                    return Err(format!("remove-not-removed :: {act:?}: address still stored"));
                }
                if was && !events.iter().any(|e| matches!(e, Event::PeerAddressRemoved { .. })) {
                    return Err(format!("explicit-removal-without-event :: {act:?}"));
                }
            }
            _ => {}
        }
        // ---- update the model
        if !explicit {
            self.perm_survived += self.perm.iter().filter(|(pi, ai)| after.get(pi).map(|s| s.contains(ai)).unwrap_or(false)).count() as u64;
        }
        if let Act::Add(pi, ai) = act {
            self.perm.insert((*pi, *ai));
        }
        self.perm.retain(|(pi, ai)| after.get(pi).map(|s| s.contains(ai)).unwrap_or(false));
        // record provenance: a record that exists now and did not exist before this step was constructed by this action
        // (a record evicted and re-created within one step also counts as new: its old addresses are gone)
        self.by_data.retain(|pi, _| after.contains_key(pi));
        for pi in after.keys() {
            let recreated = before.get(pi).map(|old| !old.is_empty() && old.iter().all(|x| !after[pi].contains(x)) && matches!(act, Act::InsertData(q) if q == pi)).unwrap_or(false);
            if !before.contains_key(pi) || recreated {
                self.by_data.insert(*pi, matches!(act, Act::InsertData(_)));
            }
        }
        self.prev = after_list;
        Ok(())
    }

    fn invariant(&self) -> Result<(), String> {
        #[allow(non_snake_case)]
        let PCAP = self.pcap;
        for (pi, l) in &self.prev {
            if l.len() > RCAP {
                return Err(format!("record-capacity-exceeded :: peer {pi} holds {} addresses (capacity {RCAP}): {:?}", l.len(), self.prev));
            }
        }
        if self.prev.len() > PCAP {
            if self.tolerant && self.prev.len() == PCAP + 1 {
                return Ok(());
            }
            return Err(format!("peer-capacity-exceeded :: store holds {} peers (capacity {PCAP}): {:?}", self.prev.len(), self.prev));
        }
        Ok(())
    }

    fn canon(&self) -> Vec<u8> {
        // store contents in iteration order + reference permanent set + the store's *private*
        // permanent flags (hook): without them a state in which a flag was silently changed
        // would be merged with its unchanged twin and never be extended
        let flags: Vec<(u8, Vec<(u8, bool)>)> = self.store.record_iter().map(|(pid, r)| (pidx(pid), r.verif_flags().iter().map(|(a, f)| (aidx(a), *f)).collect())).collect();
        let data: Vec<bool> = (0..3u8).map(|i| self.store.get_custom_data(&p(i)).is_some()).collect();
        format!("{:?}|{:?}|{:?}|{:?}|{:?}", self.prev, self.perm, flags, data, self.by_data).into_bytes()
    }
    fn nontrivial(&self) -> bool {
        !self.perm.is_empty()
    }
}

pub fn run(ctx: &Ctx) -> Outcome {
    let mut out = Outcome::default();
    if let Some(case) = &ctx.replay {
        out.evaluations = 1;
        let tolerant = case["cfg"]["tolerant"].as_bool().unwrap_or(false);
        let pcap = case["cfg"]["pcap"].as_u64().unwrap_or(2) as usize;
        if let Err(m) = bfs::replay_history(Sys::new(tolerant, pcap), case) {
            out.violation(bfs::signature_of(&m), m, case.clone());
        }
        return out;
    }
    let depth = ctx.tier.pick(4, 6);
    // configurations: peer_capacity 2 (= record_capacity; peers get evicted) strict and tolerant, and
    // peer_capacity 3 (> record_capacity: a record sized with the wrong capacity shows)
    // (the tolerant pass only differs from the strict one while the peer-capacity defect is present; thorough tier only)
    let passes: &[(bool, usize)] = if ctx.quick() { &[(false, 2), (false, 3)] } else { &[(false, 2), (true, 2), (false, 3)] };
    for &(tolerant, pcap) in passes {
        let cfg = json!({"caps": format!("record 2 / peer {pcap}"), "tolerant": tolerant, "pcap": pcap});
        let (st, v) = bfs::bfs_replay(|| Sys::new(tolerant, pcap), depth, 4_000_000);
        bfs::record(&mut out, &cfg, &st, &v);
        out.count(&format!("states_pcap{pcap}_{}", if tolerant { "tolerant" } else { "strict" }), st.states);
    }
    // vacuity guards: walk one fixed witness history per situation on the real store
    let mut guard = Sys::new(true, 2);
    let witness = [Act::Add(0, 0), Act::NewExt(0, 1), Act::FailTransport(0, 3 | 4), Act::Conn(0, 2, 1, true), Act::Add(1, 0), Act::FailWrongPeer(1, 0, 0), Act::InsertData(2), Act::Add(2, 0), Act::Add(2, 1), Act::Add(2, 2)];
    for w in &witness {
        let _ = guard.step(w);
    }
    out.count("witness_auto_removals", guard.auto_removals);
    out.count("witness_perm_survived", guard.perm_survived);
    out.count("witness_evictions", guard.evictions);
    if guard.auto_removals == 0 || guard.perm_survived == 0 || guard.evictions == 0 {
        out.machinery("vacuity: witness history never exercised an automatic removal next to a surviving explicit address / a capacity eviction");
    }
    let ddepth = 3;
    for pcap in [2usize, 3] {
        let cfg = json!({"caps": format!("record 2 / peer {pcap}"), "tolerant": false, "pcap": pcap});
        // the companion of the second configuration concentrates on one peer's record (the peer dimension is covered by the first)
        let dd = if pcap == 2 { ddepth } else { ctx.tier.pick(2, 3) };
        let (n, capped, v2) = bfs::dfs_all(|| Sys::new(false, pcap), dd, 3_000_000);
        out.count("dfs_companion_sequences", n);
        out.evaluations += n;
        out.traces += n;
        if capped {
            out.caps.push(format!("dfs companion capped at {n} sequences"));
        }
        bfs::record(&mut out, &cfg, &Default::default(), &v2);
    }
    out.notes.push(format!("bfs depth {depth} (peer_capacity 2 strict and tolerant, peer_capacity 3 strict), dfs companion depth {ddepth} / 2-3"));
    out
}
