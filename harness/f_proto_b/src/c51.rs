//! C51 — rendezvous registrations: TTL window, per-peer / total limits, refresh semantics,
//! discovery never returns dead registrations, cookies return each registration at most once
//! (E2: BFS over register / unregister / discover / advance histories of the real `Registrations`
//! store through a hook, on the virtual clock, against a reference model).
//!
//! Determinism: `Registrations` draws random ids and iterates a `HashMap` (which registration a
//! `limit = 1` discovery returns depends on the hash seed of that instance, and std gives every
//! new `HashMap` of a thread the next seed). The whole exploration therefore runs on one fresh
//! thread after an entropy reset with a *constant* seed (counts do not depend on VERIF_SEED), the
//! hash-seed position ("salt") of the instance is part of every violation case, and `--replay`
//! advances the thread's seed counter to that position before building the system, so the
//! replayed instance iterates in exactly the recorded order. The pick among several eligible
//! registrations under `limit = 1` is *not* enumerated (one hash order per execution); the
//! oracle does not depend on it.
//!
//! Oracle = the statement, no more:
//!  * a registration is accepted only with min_ttl <= ttl <= max_ttl;
//!  * after every step the store (observed through discover-all) holds <= per_peer registrations
//!    per peer and <= total in total;
//!  * re-registering a live (peer, namespace) with a valid ttl must be accepted (also at the
//!    limits) and replaces the old registration;
//!  * a discovery returns only registrations that are live in the reference model (accepted, not
//!    unregistered, not superseded, deadline not reached), none twice, and none that an earlier
//!    discovery of the same cookie chain returned.
//!  * completeness: a discovery without cookie and without limit returns every registration that was
//!    accepted and is neither unregistered, superseded nor past its own ttl (an accepted
//!    registration lives for the ttl it was accepted with; a refresh lives for its *own* ttl);
//!  * an ExpiredRegistration event names only a registration whose own ttl has elapsed (events of
//!    superseded registrations at their own old deadline are accepted).
//!  * every remembered cookie is re-presented after every step (clock advances / expiries in
//!    between included) and must still not return anything its chain already returned.
//! Left open (follows the store): whether a *new* registration within the limits is accepted,
//! completeness of cookie / limit discoveries, answers to mismatching cookies.

use kit::ids::{addr, keypair, peer};
use libp2p_core::PeerRecord;
use libp2p_rendezvous::server::verif_proto_b::VRegistrations;
use libp2p_rendezvous::server::Config;
use libp2p_rendezvous::{Cookie, Namespace};
use mc::bfs::{self, System};
use mc::{json, Ctx, Meta, Outcome};
use serde::{Deserialize, Serialize};
use std::collections::{BTreeMap, BTreeSet};
use std::sync::atomic::{AtomicU64, Ordering::SeqCst};
use std::task::{Context, Poll};
use std::time::Duration;

pub const META: Meta = Meta {
    level: "model_checking",
    rule: "BFS over all histories of {register(peer in 2, namespace in 3, ttl in {1,2,10,11,none = protocol default 7200} for namespace 0 and {2,10} otherwise), unregister(peer, namespace), discover(all | ns0 | ns1 (ns1 in the thorough tier only); cookie none | last | older | foreign-namespace; limit none | 1), advance virtual time by 1 s or 8 s followed by polling the expiry stream} on the real Registrations store with limits min_ttl 2, max_ttl 10, 2 per peer, 3 in total; states deduplicated on (reference model with relative deadlines, last two cookies, pending timers of dead registrations, discover-all projection and table sizes of the store). Non-trivial = states with at least one live registration.",
    explanation: "Every register answer and every discovery result is checked against the reference model of live registrations with deadlines and per-cookie already-returned sets; limits are checked on the store's own discover-all answer after every step; un-deduplicated DFS companion to a smaller depth.",
    assumptions: &["2 peers / 3 namespaces / tiny limits (small-scope hypothesis)", "cookie cache never overflows (default max_cookies 10000)", "expiry timers fire as soon as their deadline is reached and are polled before the next request (the order Behaviour::poll uses)", "signed peer records are trusted as built (record validation is not part of Registrations)"],
};

const MIN_TTL: u64 = 2;
const MAX_TTL: u64 = 10;
const PER_PEER: usize = 2;
const TOTAL: usize = 3;

#[derive(Clone, Debug, Serialize, Deserialize, PartialEq)]
pub enum Act {
    /// peer, namespace, ttl
    Reg(u8, u8, u64),
    /// peer, namespace; the request carries no ttl (the server's default ttl applies)
    RegNoTtl(u8, u8),
    Unreg(u8, u8),
    /// namespace (3 = all), cookie (0 none, 1 last, 2 older, 3 foreign namespace), limit 1?
    Disc(u8, u8, bool),
    Advance(u64),
}

// ---------------------------------------------------------------- real store + helpers

enum Cmd {
    Add(u8, u8, Option<u64>, u32),
    Remove(u8, u8),
    Get(Option<u8>, Option<Vec<u8>>, Option<u64>),
    Advance(u64),
}
#[derive(Debug)]
enum Reply {
    Add(Result<u32, String>),
    Unit,
    /// registrations as (ident, peer, ns), new cookie wire bytes
    Get(Result<(Vec<(u32, u8, u8)>, Vec<u8>), ()>),
}
struct Resp {
    reply: Reply,
    sizes: (usize, usize, usize),
}

fn ns(i: u8) -> Namespace {
    Namespace::from_static(["ns0", "ns1", "ns2"][i as usize])
}
fn ns_idx(n: &Namespace) -> u8 {
    (0..3u8).find(|i| &ns(*i) == n).unwrap_or(99)
}
fn pidx(p: &libp2p_identity::PeerId) -> u8 {
    (1..=2u8).find(|i| &peer(*i) == p).map(|i| i - 1).unwrap_or(99)
}
fn ident_of(r: &libp2p_rendezvous::Registration) -> u32 {
    use multiaddr::Protocol;
    r.record.addresses().first().and_then(|a| a.iter().find_map(|p| if let Protocol::Tcp(port) = p { Some(port as u32) } else { None })).unwrap_or(0)
}
/// signed records are cached per (peer, ident): signing is the expensive part of a step
fn record(p: u8, ident: u32) -> PeerRecord {
    thread_local! { static CACHE: std::cell::RefCell<BTreeMap<(u8, u32), PeerRecord>> = const { std::cell::RefCell::new(BTreeMap::new()) }; }
    CACHE.with(|c| c.borrow_mut().entry((p, ident)).or_insert_with(|| PeerRecord::new(&keypair(p + 1), vec![addr(&format!("/ip4/10.0.0.1/tcp/{ident}"))]).expect("sign")).clone())
}
/// position of the thread's HashMap seed counter, as a fingerprint
fn salt_now() -> u64 {
    use std::hash::BuildHasher;
    std::collections::hash_map::RandomState::new().hash_one(0u64)
}
/// advance the thread's HashMap seed counter until its fingerprint is `salt`
fn align_salt(salt: u64) -> bool {
    for _ in 0..200_000_000u64 {
        if salt_now() == salt {
            return true;
        }
    }
    false
}

// ---------------------------------------------------------------- reference model

#[derive(Clone, Debug)]
struct CookieM {
    wire: Vec<u8>,
    ns: Option<u8>,
    returned: BTreeSet<u32>,
}

static QUICK: std::sync::atomic::AtomicBool = std::sync::atomic::AtomicBool::new(false);
static G_REFRESH: AtomicU64 = AtomicU64::new(0);
static G_REFUSED_LIMIT: AtomicU64 = AtomicU64::new(0);
static G_REFUSED_TTL: AtomicU64 = AtomicU64::new(0);
static G_EXPIRED: AtomicU64 = AtomicU64::new(0);
static G_COOKIE_FILTERED: AtomicU64 = AtomicU64::new(0);
static G_MISMATCH: AtomicU64 = AtomicU64::new(0);

pub struct Sys {
    regs: VRegistrations,
    pub salt: u64,
    now: u64,
    next_ident: u32,
    /// (peer, ns) -> (ident, deadline)
    live: BTreeMap<(u8, u8), (u32, u64)>,
    /// ident -> why it is dead
    dead: BTreeMap<u32, &'static str>,
    /// ident -> deadline acknowledged at acceptance (every accepted registration, live or dead)
    deadlines: BTreeMap<u32, u64>,
    /// deadlines of timers that belong to dead registrations and are still pending in the store
    zombies: Vec<u64>,
    /// last two cookies handed out (most recent last)
    cookies: Vec<CookieM>,
    /// store projection after the last step: discover-all answer + table sizes
    proj: (Vec<(u32, u8, u8)>, (usize, usize)),
    /// what the store answers *now* to each remembered cookie (re-probed after every step)
    cookie_proj: Vec<Option<Vec<u32>>>,
}

impl Sys {
    pub fn new() -> Self {
        Self::build(salt_now())
    }
    /// `salt` = fingerprint of the thread's hash-seed counter consumed just before this call
    pub fn build(salt: u64) -> Self {
        mc::vclock::reset();
        libp2p_swarm::verif_delay::reset_registry();
        let cfg = Config::default().with_min_ttl(MIN_TTL).with_max_ttl(MAX_TTL).with_max_registration_per_peer(PER_PEER).with_max_registration_total(TOTAL);
        let mut s = Sys { regs: VRegistrations::new(cfg), salt, now: 0, next_ident: 1, live: BTreeMap::new(), dead: BTreeMap::new(), deadlines: BTreeMap::new(), zombies: Vec::new(), cookies: Vec::new(), proj: (Vec::new(), (0, 0)), cookie_proj: Vec::new() };
        s.drain();
        s
    }
    /// poll the expiry stream until Pending (registers the wakers of new timers)
    fn drain(&mut self) -> Vec<u32> {
        let w = futures::task::noop_waker();
        let mut cx = Context::from_waker(&w);
        let mut v = Vec::new();
        while let Poll::Ready(r) = self.regs.poll(&mut cx) {
            v.push(ident_of(&r));
            if v.len() > 64 {
                break;
            }
        }
        v
    }
    fn call(&mut self, c: Cmd) -> Result<Resp, String> {
        let salt = self.salt;
        let r = mc::catch(|| {
            let regs = &mut self.regs;
            let reply = match c {
                Cmd::Add(p, n, ttl, ident) => Reply::Add(regs.add(ns(n), record(p, ident), ttl).map(|r| ident_of(&r)).map_err(|e| format!("{e:?}"))),
                Cmd::Remove(p, n) => {
                    regs.remove(ns(n), peer(p + 1));
                    Reply::Unit
                }
                Cmd::Get(n, cookie, limit) => {
                    let cookie = cookie.map(|b| Cookie::from_wire_encoding(b).expect("cookie wire encoding"));
                    Reply::Get(regs.get(n.map(ns), cookie, limit).map(|(rs, c)| (rs.iter().map(|r| (ident_of(r), pidx(&r.record.peer_id()), ns_idx(&r.namespace))).collect(), c.into_wire_encoding())))
                }
                Cmd::Advance(d) => {
                    mc::vclock::advance(Duration::from_secs(d));
                    libp2p_swarm::verif_delay::fire_due();
                    Reply::Unit
                }
            };
            reply
        });
        match r {
            Ok(reply) => {
                let expired = mc::catch(|| self.drain()).map_err(|p| format!("panic at {} :: {p} [salt={salt}]", mc::shim::last_panic_loc().unwrap_or_default()))?;
                // RegistrationExpired may only name a registration whose *own* ttl has elapsed
                // (superseded registrations expiring at their own old deadline are accepted: the
                // statement does not cover them)
                for ident in expired {
                    match self.deadlines.get(&ident) {
                        Some(dl) if *dl <= self.now => {}
                        Some(dl) => return Err(format!("expired-event-before-ttl :: registration #{ident} reported as expired at time {} although its own deadline is {dl}", self.now)),
                        None => return Err(format!("expired-event-for-unknown-registration :: registration #{ident} reported as expired but was never accepted")),
                    }
                }
                Ok(Resp { reply, sizes: self.regs.sizes() })
            }
            Err(p) => Err(format!("panic at {} :: {p} [salt={salt}]", mc::shim::last_panic_loc().unwrap_or_default())),
        }
    }
    fn kill(&mut self, key: (u8, u8), why: &'static str) {
        if let Some((ident, deadline)) = self.live.remove(&key) {
            self.dead.insert(ident, why);
            if why != "expired" {
                self.zombies.push(deadline);
            }
        }
    }
    /// completeness (cookie-less, limit-less discovery): every registration that was accepted and is
    /// neither unregistered, superseded nor past its own deadline must be in the answer
    fn check_complete(&self, what: &str, q: Option<u8>, regs: &[(u32, u8, u8)]) -> Result<(), String> {
        for ((p, n), (ident, deadline)) in &self.live {
            if q.map(|x| x == *n).unwrap_or(true) && *deadline > self.now && !regs.iter().any(|r| r.0 == *ident) {
                return Err(format!("live-registration-not-discovered :: {what}: registration #{ident} of ({p},{n}) (deadline {deadline}, now {}) is missing from a discovery without cookie and limit; answer {regs:?}", self.now));
            }
        }
        Ok(())
    }
    /// check one discovery answer against the model; `used` = already-returned set of the cookie
    fn check_discovery(&self, what: &str, regs: &[(u32, u8, u8)], used: &BTreeSet<u32>) -> Result<(), String> {
        let mut seen = BTreeSet::new();
        for (ident, p, n) in regs {
            match self.live.get(&(*p, *n)) {
                Some((i, deadline)) if i == ident => {
                    if *deadline <= self.now {
                        return Err(format!("discover-returned-expired :: {what}: registration #{ident} of ({p},{n}) reached its deadline {deadline} at time {}", self.now));
                    }
                }
                _ => {
                    let why = self.dead.get(ident).copied().unwrap_or("unknown");
                    return Err(format!("discover-returned-{why} :: {what}: returned registration #{ident} of ({p},{n}) which is {why}; live {:?}", self.live));
                }
            }
            if !seen.insert(*ident) {
                return Err(format!("discover-duplicate-in-answer :: {what}: registration #{ident} twice in one answer"));
            }
            if used.contains(ident) {
                return Err(format!("discover-repeated-with-cookie :: {what}: registration #{ident} had already been returned to this cookie chain"));
            }
        }
        Ok(())
    }
}

impl Sys {
    fn step_inner(&mut self, a: &Act) -> Result<(), String> {
        match a {
            Act::Reg(..) | Act::RegNoTtl(..) => {
                // a request without ttl is judged by its effective ttl (the protocol default)
                let (p, n, sent) = match a {
                    Act::Reg(p, n, t) => (p, n, Some(*t)),
                    Act::RegNoTtl(p, n) => (p, n, None),
                    _ => unreachable!(),
                };
                let ttl = &sent.unwrap_or(libp2p_rendezvous::DEFAULT_TTL);
                let ident = self.next_ident;
                self.next_ident += 1;
                let r = self.call(Cmd::Add(*p, *n, sent, ident))?;
                let Reply::Add(ans) = r.reply else { return Err("HARNESS bad reply".into()) };
                let valid = (MIN_TTL..=MAX_TTL).contains(ttl);
                let is_refresh = self.live.contains_key(&(*p, *n));
                let peer_count = self.live.keys().filter(|k| k.0 == *p).count();
                match &ans {
                    Ok(_) => {
                        if !valid {
                            return Err(format!("register-accepted-invalid-ttl :: {a:?} accepted with ttl {ttl} outside [{MIN_TTL},{MAX_TTL}]"));
                        }
                        if is_refresh {
                            G_REFRESH.fetch_add(1, SeqCst);
                            self.kill((*p, *n), "superseded");
                        }
                        self.live.insert((*p, *n), (ident, self.now + ttl));
                        self.deadlines.insert(ident, self.now + ttl);
                    }
                    Err(e) => {
                        if valid {
                            G_REFUSED_LIMIT.fetch_add(1, SeqCst);
                        } else {
                            G_REFUSED_TTL.fetch_add(1, SeqCst);
                        }
                        if valid && is_refresh {
                            let at = if peer_count >= PER_PEER { "-at-peer-limit" } else if self.live.len() >= TOTAL { "-at-total-limit" } else { "" };
                            return Err(format!("refresh-refused{at} :: {a:?} re-registers a live (peer, namespace) with a valid ttl but was refused with {e}; peer holds {peer_count}/{PER_PEER}, store {}/{TOTAL}", self.live.len()));
                        }
                    }
                }
            }
            Act::Unreg(p, n) => {
                self.call(Cmd::Remove(*p, *n))?;
                self.kill((*p, *n), "unregistered");
            }
            Act::Disc(n, c, lim) => {
                let q = if *n == 3 { None } else { Some(*n) };
                let (cookie, used, cns): (Option<Vec<u8>>, BTreeSet<u32>, Option<Option<u8>>) = match c {
                    0 => (None, BTreeSet::new(), None),
                    1 | 2 => {
                        let ck = &self.cookies[self.cookies.len() - *c as usize];
                        (Some(ck.wire.clone()), ck.returned.clone(), Some(ck.ns))
                    }
                    _ => {
                        let other = if q == Some(0) { 1 } else { 0 };
                        (Some(Cookie::for_namespace(ns(other)).into_wire_encoding()), BTreeSet::new(), Some(Some(other)))
                    }
                };
                let r = self.call(Cmd::Get(q, cookie, if *lim { Some(1) } else { None }))?;
                let Reply::Get(ans) = r.reply else { return Err("HARNESS bad reply".into()) };
                match ans {
                    Err(()) => {
                        G_MISMATCH.fetch_add(1, SeqCst);
                        // the statement does not say which cookies must be honoured: no demand
                        let _ = cns;
                    }
                    Ok((regs, wire)) => {
                        self.check_discovery(&format!("{a:?}"), &regs, &used)?;
                        if *c == 0 && !*lim {
                            self.check_complete(&format!("{a:?}"), q, &regs)?;
                        }
                        if !used.is_empty() && self.live.values().any(|(i, _)| used.contains(i)) {
                            G_COOKIE_FILTERED.fetch_add(1, SeqCst);
                        }
                        let mut returned = used;
                        returned.extend(regs.iter().map(|r| r.0));
                        self.cookies.push(CookieM { wire, ns: q, returned });
                        if self.cookies.len() > 2 {
                            self.cookies.remove(0);
                        }
                    }
                }
            }
            Act::Advance(d) => {
                self.now += d;
                let r = self.call(Cmd::Advance(*d))?;
                let due: Vec<(u8, u8)> = self.live.iter().filter(|(_, (_, dl))| *dl <= self.now).map(|(k, _)| *k).collect();
                for k in due {
                    G_EXPIRED.fetch_add(1, SeqCst);
                    self.kill(k, "expired");
                }
                let now = self.now;
                self.zombies.retain(|dl| *dl > now);
                let _ = r;
            }
        }
        // ---- projection of the store + limits on the store's own answer
        let r = self.call(Cmd::Get(None, None, None))?;
        let Reply::Get(Ok((mut regs, _))) = r.reply else { return Err("discover-all-refused :: discover without cookie refused".into()) };
        regs.sort();
        self.check_discovery("discover-all probe", &regs, &BTreeSet::new())?;
        self.check_complete(&format!("discover-all probe after {a:?}"), None, &regs)?;
        if regs.len() > TOTAL {
            return Err(format!("total-limit-exceeded :: store holds {} registrations (max_registrations_total {TOTAL}) after {a:?}: {regs:?}", regs.len()));
        }
        for p in 0..2u8 {
            let c = regs.iter().filter(|r| r.1 == p).count();
            if c > PER_PEER {
                return Err(format!("per-peer-limit-exceeded :: peer {p} holds {c} registrations (max_registrations_per_peer {PER_PEER}) after {a:?}: {regs:?}"));
            }
        }
        self.proj = (regs, (r.sizes.0, r.sizes.1));
        // ---- every remembered cookie is re-presented after every step (a client may come back with it
        // at any time): "at most once per cookie chain" must hold whatever happened in between
        // (expiries, unregistrations, refreshes); the answers are also part of the canonical key, so a
        // store that silently forgot a cookie is not merged with one that still knows it
        let mut cp = Vec::new();
        for k in 0..self.cookies.len() {
            let (wire, cns, used) = { let c = &self.cookies[k]; (c.wire.clone(), c.ns, c.returned.clone()) };
            let r = self.call(Cmd::Get(cns, Some(wire), None))?;
            match r.reply {
                Reply::Get(Ok((mut regs, _))) => {
                    regs.sort();
                    self.check_discovery(&format!("re-presenting cookie #{k} (namespace {cns:?}) after {a:?}"), &regs, &used)?;
                    cp.push(Some(regs.iter().map(|r| r.0).collect()));
                }
                _ => cp.push(None),
            }
        }
        self.cookie_proj = cp;
        Ok(())
    }
}

impl System for Sys {
    type Action = Act;
    fn actions(&self) -> Vec<Act> {
        let mut v = Vec::new();
        for p in 0..2u8 {
            for n in 0..3u8 {
                let ttls: &[u64] = if n == 0 { &[1, 2, 10, 11] } else { &[2, 10] };
                for t in ttls {
                    v.push(Act::Reg(p, n, *t));
                }
                if n == 0 {
                    v.push(Act::RegNoTtl(p, n));
                }
            }
        }
        for p in 0..2u8 {
            for n in 0..3u8 {
                v.push(Act::Unreg(p, n));
            }
        }
        // quick tier: discover-all and ns0 only (ns1 queries are explored in the thorough tier)
        let queries: &[u8] = if QUICK.load(SeqCst) { &[3, 0] } else { &[3, 0, 1] };
        for &n in queries {
            for c in 0..4u8 {
                if (c == 1 && self.cookies.is_empty()) || (c == 2 && self.cookies.len() < 2) {
                    continue;
                }
                v.push(Act::Disc(n, c, false));
                if c != 3 {
                    v.push(Act::Disc(n, c, true));
                }
            }
        }
        v.push(Act::Advance(1));
        v.push(Act::Advance(8));
        v
    }

    fn step(&mut self, a: &Act) -> Result<(), String> {
        let salt = self.salt;
        self.step_inner(a).map_err(|m| if m.contains("[salt=") { m } else { format!("{m} [salt={salt}]") })
    }

    fn canon(&self) -> Vec<u8> {
        let live: Vec<((u8, u8), u64)> = self.live.iter().map(|(k, (_, dl))| (*k, dl - self.now)).collect();
        let key_of = |ident: &u32| self.live.iter().find(|(_, (i, _))| i == ident).map(|(k, _)| *k);
        let cookies: Vec<(Option<u8>, Vec<(u8, u8)>)> = self.cookies.iter().map(|c| (c.ns, c.returned.iter().filter_map(key_of).collect())).collect();
        let mut z: Vec<u64> = self.zombies.iter().map(|d| d - self.now).collect();
        z.sort();
        let proj: Vec<(Option<(u8, u8)>, u8, u8)> = self.proj.0.iter().map(|(i, p, n)| (key_of(i), *p, *n)).collect();
        let cproj: Vec<Option<Vec<Option<(u8, u8)>>>> = self.cookie_proj.iter().map(|o| o.as_ref().map(|v| v.iter().map(key_of).collect())).collect();
        format!("{live:?}|{cookies:?}|{z:?}|{proj:?}|{:?}|{cproj:?}", self.proj.1).into_bytes()
    }
    fn nontrivial(&self) -> bool {
        !self.live.is_empty()
    }
}

pub fn run(ctx: &Ctx) -> Outcome {
    let ctx = ctx.clone();
    // constant entropy seed: hash orders (and therefore counts) do not depend on VERIF_SEED
    match mc::isolated(0, move || run_inner(&ctx)) {
        Ok(o) => o,
        Err(p) => {
            let mut o = Outcome::default();
            o.machinery(format!("check body panicked: {p}"));
            o
        }
    }
}

fn salt_of(msg: &str) -> Option<u64> {
    let i = msg.rfind("[salt=")?;
    msg[i + 6..].split(']').next()?.parse().ok()
}

fn run_inner(ctx: &Ctx) -> Outcome {
    let mut out = Outcome::default();
    let cfg = json!({"limits": "ttl 2..10, per_peer 2, total 3"});
    if let Some(case) = &ctx.replay {
        out.evaluations = 1;
        let sys = match case["salt"].as_u64() {
            Some(salt) => {
                if !align_salt(salt) {
                    out.machinery("replay: could not reach the recorded hash-seed position");
                }
                Sys::build(salt)
            }
            None => Sys::new(),
        };
        if let Err(m) = bfs::replay_history(sys, case) {
            out.violation(bfs::signature_of(&m), m, case.clone());
        }
        return out;
    }
    QUICK.store(ctx.quick(), SeqCst);
    let depth = std::env::var("C51_DEPTH").ok().and_then(|s| s.parse().ok()).unwrap_or(ctx.tier.pick(5, 7));
    let (st, v) = bfs::bfs_replay(Sys::new, depth, ctx.tier.pick(300_000, 2_000_000));
    bfs::record(&mut out, &cfg, &st, &v);
    for (k, g) in [("refreshes_accepted", &G_REFRESH), ("valid_ttl_refused", &G_REFUSED_LIMIT), ("invalid_ttl_refused", &G_REFUSED_TTL), ("registrations_expired", &G_EXPIRED), ("discoveries_with_cookie_hiding_live_registration", &G_COOKIE_FILTERED), ("cookie_namespace_mismatch_answers", &G_MISMATCH)] {
        out.count(k, g.load(SeqCst));
    }
    if G_REFUSED_LIMIT.load(SeqCst) == 0 || G_REFUSED_TTL.load(SeqCst) == 0 || G_EXPIRED.load(SeqCst) == 0 || G_COOKIE_FILTERED.load(SeqCst) == 0 {
        out.machinery("vacuity: exploration never hit a limit refusal / ttl refusal / expiry / cookie-filtered discovery");
    }
    let ddepth = ctx.tier.pick(2, 3);
    let (n, capped, v2) = bfs::dfs_all(Sys::new, ddepth, 2_000_000);
    out.count("dfs_companion_sequences", n);
    out.evaluations += n;
    out.traces += n;
    if capped {
        out.caps.push(format!("dfs companion capped at {n} sequences"));
    }
    bfs::record(&mut out, &cfg, &Default::default(), &v2);
    out.notes.push(format!("bfs depth {depth}, dfs companion depth {ddepth}"));
    // the hash-seed position of the violating instance belongs to the replay case
    for v in &mut out.violations {
        if let Some(salt) = salt_of(&v.message) {
            v.case["salt"] = json!(salt);
        }
    }
    out
}
