//! C56 — WebRTC stream half-close state machine (E2: BFS over histories of local operations on a
//! connected pair of real `libp2p_webrtc_utils::Stream`s + injected inbound frames, with
//! `Pending` injected on the outbound data channel of side A).
//!
//! Reference automaton per side: read half open / write half open / reset.
//!  * a local `poll_close` (`poll_close_read`) that returns Ok or Pending closes the write (read) half;
//!  * an inbound FIN closes the read half, STOP_SENDING the write half, RESET resets — at the
//!    moment the stream pulls that frame from the data channel (the channel hands out exactly
//!    one frame per poll, so "pulled" = "handled by the stream");
//! Oracle (exactly the statement): no panic; a read returns data (Ok(n>0)) only if the read
//! half is open both when the call starts and in the reference state reached after every frame
//! the stream consumed from the channel up to its return (counted from outside, so independent of
//! the order in which the implementation consults its own state); likewise a write is accepted
//! (Ok(n>0)) only if the write half is open at the start and no STOP_SENDING / RESET was consumed
//! before it returned; every operation that *starts* after the reset was pulled must
//! return Err(ConnectionReset). Nothing is demanded in the other direction (an open half may
//! still refuse). Ok(0) (EOF) is not "a successful read of data".

use futures::{AsyncRead, AsyncWrite};
use libp2p_webrtc_utils::{DropListener, Stream};
use mc::bfs::{self, System};
use mc::{json, Ctx, Meta, Outcome};
use serde::{Deserialize, Serialize};
use std::collections::VecDeque;
use std::io;
use std::pin::Pin;
use std::sync::{Arc, Mutex};
use std::task::{Context, Poll};

pub const META: Meta = Meta {
    level: "model_checking",
    rule: "BFS over all histories of {A: read(1 byte) / write 2 bytes / write max-size frame / flush / close / close_read; B: read / write / flush / close / close_read; inject FIN / STOP_SENDING / RESET / 2 data bytes into A's or B's inbound channel; block / unblock A's outbound channel (poll_ready / flush Pending)} on a connected pair of real Streams; states deduplicated on (reference automaton of both sides, private State Debug + buffer lengths via hook, channel contents, unflushed frames). Non-trivial = states in which at least one half of one side is closed or reset in the reference automaton.",
    explanation: "Every operation's result is compared with the reference half-close automaton (reads only while the read half is open, writes only while the write half is open, ConnectionReset for everything after a pulled RESET); panics are caught per step; un-deduplicated DFS companion to a smaller depth.",
    assumptions: &["channels are reliable and ordered, deliver one frame per poll, never fail", "<= 3 frames queued per direction", "DropListener is kept alive but not polled", "flag-only and data-only frames (no frame carrying both)"],
};

// ---------------------------------------------------------------- cloneable in-memory channel

#[derive(Clone, Copy, Debug, PartialEq, Eq, Serialize, Deserialize)]
pub enum Kind {
    Fin,
    Stop,
    Reset,
    Data,
    Other,
}

#[derive(Default)]
struct Chan {
    frames: VecDeque<(Kind, Vec<u8>)>,
    cursor: usize,
    partial: Vec<u8>,
    blocked: bool,
    pulled: Vec<Kind>,
    arrived: u64,
}

fn classify(body: &[u8]) -> Kind {
    match kit::pb::parse(body) {
        Some(fields) => {
            let mut k = Kind::Other;
            for f in fields {
                match f {
                    kit::pb::Field::Uint(1, 0) => k = Kind::Fin,
                    kit::pb::Field::Uint(1, 1) => k = Kind::Stop,
                    kit::pb::Field::Uint(1, 2) => k = Kind::Reset,
                    kit::pb::Field::Bytes(2, _) if k == Kind::Other => k = Kind::Data,
                    _ => {}
                }
            }
            k
        }
        None => Kind::Other,
    }
}

impl Chan {
    fn push_bytes(&mut self, b: &[u8]) {
        self.partial.extend_from_slice(b);
        loop {
            let Some((len, n)) = kit::pb::read_varint(&self.partial) else { return };
            let total = n + len as usize;
            if self.partial.len() < total {
                return;
            }
            let frame: Vec<u8> = self.partial.drain(..total).collect();
            let kind = classify(&frame[n..]);
            self.frames.push_back((kind, frame));
            self.arrived += 1;
        }
    }
}

#[derive(Clone)]
pub struct End {
    rx: Arc<Mutex<Chan>>,
    tx: Arc<Mutex<Chan>>,
}

impl AsyncRead for End {
    fn poll_read(self: Pin<&mut Self>, _cx: &mut Context<'_>, buf: &mut [u8]) -> Poll<io::Result<usize>> {
        let mut c = self.rx.lock().unwrap();
        let cur = c.cursor;
        let Some((kind, frame)) = c.frames.front().map(|(k, f)| (*k, f.clone())) else { return Poll::Pending };
        let n = buf.len().min(frame.len() - cur);
        buf[..n].copy_from_slice(&frame[cur..cur + n]);
        c.cursor += n;
        if c.cursor == frame.len() {
            c.frames.pop_front();
            c.cursor = 0;
            c.pulled.push(kind);
        }
        Poll::Ready(Ok(n))
    }
}
impl AsyncWrite for End {
    fn poll_write(self: Pin<&mut Self>, _cx: &mut Context<'_>, buf: &[u8]) -> Poll<io::Result<usize>> {
        let mut c = self.tx.lock().unwrap();
        if c.blocked {
            return Poll::Pending;
        }
        c.push_bytes(buf);
        Poll::Ready(Ok(buf.len()))
    }
    fn poll_flush(self: Pin<&mut Self>, _cx: &mut Context<'_>) -> Poll<io::Result<()>> {
        if self.tx.lock().unwrap().blocked {
            return Poll::Pending;
        }
        Poll::Ready(Ok(()))
    }
    fn poll_close(self: Pin<&mut Self>, _cx: &mut Context<'_>) -> Poll<io::Result<()>> {
        Poll::Ready(Ok(()))
    }
}

// ---------------------------------------------------------------- system

#[derive(Clone, Copy, Debug, Serialize, Deserialize, PartialEq, Eq)]
pub enum Op {
    Read,
    Write,
    WriteBig,
    Flush,
    Close,
    CloseRead,
}

#[derive(Clone, Debug, Serialize, Deserialize, PartialEq)]
pub enum Act {
    /// side (0 = A, 1 = B), operation
    Do(u8, Op),
    /// inject a frame into the inbound channel of side
    Inject(u8, Kind),
    /// block / unblock A's outbound channel
    Block(bool),
}

#[derive(Clone, Debug, Default, PartialEq)]
struct Ref {
    r_closed: bool,
    w_closed: bool,
    reset: bool,
}

struct Side {
    stream: Stream<End>,
    _listener: DropListener<End>,
    rx: Arc<Mutex<Chan>>,
    tx: Arc<Mutex<Chan>>,
    spec: Ref,
    pulled_seen: usize,
    /// frames accepted by the stream that have not reached the channel yet
    unflushed: VecDeque<Kind>,
    arrived_seen: u64,
}

pub struct Sys {
    s: [Side; 2],
    c: &'static Mutex<Counters>,
}
static COUNTERS: Mutex<Counters> = Mutex::new(Counters { ops_after_reset: 0, reads_with_closed_half: 0, writes_with_closed_half: 0, pending_results: 0, data_reads: 0, writes_closed_during_op: 0 });
fn counters() -> Counters {
    COUNTERS.lock().unwrap().clone()
}
#[derive(Clone, Debug)]
pub struct Counters {
    pub ops_after_reset: u64,
    pub reads_with_closed_half: u64,
    pub writes_with_closed_half: u64,
    pub pending_results: u64,
    pub data_reads: u64,
    pub writes_closed_during_op: u64,
}

const BIG: usize = 16 * 1024 - 7; // MAX_DATA_LEN

impl Sys {
    pub fn new() -> Self {
        let ab = Arc::new(Mutex::new(Chan::default()));
        let ba = Arc::new(Mutex::new(Chan::default()));
        let mk = |rx: &Arc<Mutex<Chan>>, tx: &Arc<Mutex<Chan>>| {
            let (stream, listener) = Stream::new(End { rx: rx.clone(), tx: tx.clone() });
            Side { stream, _listener: listener, rx: rx.clone(), tx: tx.clone(), spec: Ref::default(), pulled_seen: 0, unflushed: VecDeque::new(), arrived_seen: 0 }
        };
        Sys { s: [mk(&ba, &ab), mk(&ab, &ba)], c: &COUNTERS }
    }
}

fn kind_of(e: &io::Error) -> io::ErrorKind {
    e.kind()
}

#[derive(Debug, PartialEq)]
enum Res {
    Pending,
    Ok(usize),
    Err(io::ErrorKind),
}

fn phase(state: &str) -> (&'static str, bool) {
    // (coarse state name, MessageSent?)
    let ms = state.contains("MessageSent");
    let name = if state.starts_with("Open") {
        "Open"
    } else if state.starts_with("ReadClosed") {
        "ReadClosed"
    } else if state.starts_with("WriteClosed") {
        "WriteClosed"
    } else if state.starts_with("ClosingRead") {
        "ClosingRead"
    } else if state.starts_with("ClosingWrite") {
        "ClosingWrite"
    } else {
        "BothClosed"
    };
    (name, ms)
}

impl System for Sys {
    type Action = Act;
    fn actions(&self) -> Vec<Act> {
        let mut v = Vec::new();
        for op in [Op::Read, Op::Write, Op::WriteBig, Op::Flush, Op::Close, Op::CloseRead] {
            v.push(Act::Do(0, op));
        }
        for op in [Op::Read, Op::Write, Op::Flush, Op::Close, Op::CloseRead] {
            v.push(Act::Do(1, op));
        }
        for side in 0..2u8 {
            if self.s[side as usize].rx.lock().unwrap().frames.len() < 3 {
                for k in [Kind::Fin, Kind::Stop, Kind::Reset, Kind::Data] {
                    v.push(Act::Inject(side, k));
                }
            }
        }
        let blocked = self.s[0].tx.lock().unwrap().blocked;
        v.push(Act::Block(!blocked));
        v
    }

    fn step(&mut self, act: &Act) -> Result<(), String> {
        match act {
            Act::Block(b) => {
                self.s[0].tx.lock().unwrap().blocked = *b;
                Ok(())
            }
            Act::Inject(side, k) => {
                let body = match k {
                    Kind::Fin => kit::pb::W::new().uint(1, 0),
                    Kind::Stop => kit::pb::W::new().uint(1, 1),
                    Kind::Reset => kit::pb::W::new().uint(1, 2),
                    _ => kit::pb::W::new().bytes(2, b"xy"),
                };
                let framed = body.framed();
                let mut c = self.s[*side as usize].rx.lock().unwrap();
                // bypass `blocked`/`partial`: an injected frame is appended behind whatever the real peer
                // has already delivered
                let kind = classify(&body.0);
                c.frames.push_back((kind, framed));
                Ok(())
            }
            Act::Do(side, op) => self.do_op(*side as usize, *op),
        }
    }

    fn canon(&self) -> Vec<u8> {
        let mut s = String::new();
        for side in &self.s {
            let rx = side.rx.lock().unwrap();
            s.push_str(&format!(
                "{:?}|{}|{:?}|{}|{:?}|{};",
                side.spec,
                side.stream.verif_state(),
                rx.frames.iter().map(|(k, f)| (*k, f.len())).collect::<Vec<_>>(),
                rx.cursor,
                side.unflushed,
                rx.blocked
            ));
        }
        s.into_bytes()
    }
    fn nontrivial(&self) -> bool {
        self.s.iter().any(|x| x.spec != Ref::default())
    }
}

impl Sys {
    fn do_op(&mut self, i: usize, op: Op) -> Result<(), String> {
        let w = futures::task::noop_waker();
        let mut cx = Context::from_waker(&w);
        let start = self.s[i].spec.clone();
        let before = self.s[i].stream.verif_state();
        let big;
        let res = {
            let st = &mut self.s[i].stream;
            let r: Poll<io::Result<usize>> = match op {
                Op::Read => {
                    let mut buf = if i == 0 { vec![0u8; 1] } else { vec![0u8; 32 * 1024] };
                    Pin::new(&mut *st).poll_read(&mut cx, &mut buf)
                }
                Op::Write => Pin::new(&mut *st).poll_write(&mut cx, b"ab"),
                Op::WriteBig => {
                    big = vec![7u8; BIG];
                    Pin::new(&mut *st).poll_write(&mut cx, &big)
                }
                Op::Flush => Pin::new(&mut *st).poll_flush(&mut cx).map(|r| r.map(|_| 0)),
                Op::Close => Pin::new(&mut *st).poll_close(&mut cx).map(|r| r.map(|_| 0)),
                Op::CloseRead => Pin::new(&mut *st).poll_close_read(&mut cx).map(|r| r.map(|_| 0)),
            };
            match r {
                Poll::Pending => Res::Pending,
                Poll::Ready(Ok(n)) => Res::Ok(n),
                Poll::Ready(Err(e)) => Res::Err(kind_of(&e)),
            }
        };
        let after = self.s[i].stream.verif_state();
        let side_name = if i == 0 { "A" } else { "B" };
        if res == Res::Pending {
            self.c.lock().unwrap().pending_results += 1;
        }
        // ---- reference state reached after every frame the stream pulled off its channel up to the
        // return of this operation (counted from outside, independent of the stream's internal order)
        let mut post = start.clone();
        let mut pulled_flag_during_op = false;
        {
            let rx = self.s[i].rx.lock().unwrap();
            for k in &rx.pulled[self.s[i].pulled_seen..] {
                match k {
                    Kind::Fin => post.r_closed = true,
                    Kind::Stop => post.w_closed = true,
                    Kind::Reset => {
                        post.reset = true;
                        post.r_closed = true;
                        post.w_closed = true;
                    }
                    _ => continue,
                }
                pulled_flag_during_op = true;
            }
        }
        // ---- oracle
        if start.reset {
            self.c.lock().unwrap().ops_after_reset += 1;
            if res != Res::Err(io::ErrorKind::ConnectionReset) {
                return Err(format!("after-reset-{op:?}-not-ConnectionReset :: side {side_name}: {op:?} started after RESET was pulled, returned {res:?}; state {before} -> {after}"));
            }
        }
        match (op, &res) {
            (Op::Read, Res::Ok(n)) if *n > 0 => {
                self.c.lock().unwrap().data_reads += 1;
                if start.r_closed {
                    return Err(format!("read-succeeds-with-read-half-closed :: side {side_name}: read returned {n} bytes although the read half is closed in the reference automaton; state {before} -> {after}"));
                }
                if post.r_closed {
                    return Err(format!("read-succeeds-after-consuming-FIN-or-RESET :: side {side_name}: read returned {n} bytes although a FIN/RESET was consumed from the channel before it returned; state {before} -> {after}"));
                }
            }
            (Op::Write | Op::WriteBig, Res::Ok(n)) if *n > 0 => {
                if start.w_closed {
                    return Err(format!("write-succeeds-with-write-half-closed :: side {side_name}: write accepted {n} bytes although the write half is closed in the reference automaton; state {before} -> {after}"));
                }
                if post.w_closed {
                    return Err(format!("write-succeeds-after-consuming-STOP_SENDING-or-RESET :: side {side_name}: write accepted {n} bytes although a STOP_SENDING/RESET was consumed from the channel before it returned; state {before} -> {after}"));
                }
            }
            _ => {}
        }
        if op == Op::Read && start.r_closed {
            self.c.lock().unwrap().reads_with_closed_half += 1;
        }
        if matches!(op, Op::Write | Op::WriteBig) && start.w_closed {
            self.c.lock().unwrap().writes_with_closed_half += 1;
        }
        if matches!(op, Op::Write | Op::WriteBig) && !start.w_closed && post.w_closed && pulled_flag_during_op {
            self.c.lock().unwrap().writes_closed_during_op += 1;
        }
        // ---- reference automaton: local effects
        {
            let spec = &mut self.s[i].spec;
            match (op, &res) {
                (Op::Close, Res::Ok(_) | Res::Pending) => spec.w_closed = true,
                (Op::CloseRead, Res::Ok(_) | Res::Pending) => spec.r_closed = true,
                _ => {}
            }
        }
        // ---- reference automaton: inbound frames pulled during this operation
        {
            let pulled: Vec<Kind> = {
                let rx = self.s[i].rx.lock().unwrap();
                rx.pulled[self.s[i].pulled_seen..].to_vec()
            };
            self.s[i].pulled_seen += pulled.len();
            for k in pulled {
                let spec = &mut self.s[i].spec;
                match k {
                    Kind::Fin => spec.r_closed = true,
                    Kind::Stop => spec.w_closed = true,
                    Kind::Reset => {
                        spec.reset = true;
                        spec.r_closed = true;
                        spec.w_closed = true;
                    }
                    _ => {}
                }
            }
        }
        // ---- bookkeeping of accepted-but-unflushed frames (part of the canonical key)
        {
            let (b, bms) = phase(&before);
            let (a, ams) = phase(&after);
            let ok = !matches!(res, Res::Err(_));
            match op {
                Op::Write | Op::WriteBig => {
                    if matches!(res, Res::Ok(n) if n > 0) {
                        self.s[i].unflushed.push_back(Kind::Data);
                    }
                }
                Op::Close => {
                    let could = matches!(b, "Open" | "ReadClosed") || (b == "ClosingWrite" && !bms);
                    let did = (a == "ClosingWrite" && ams) || a == "WriteClosed" || a == "BothClosed";
                    if ok && could && did {
                        self.s[i].unflushed.push_back(Kind::Fin);
                    }
                }
                Op::CloseRead => {
                    let could = matches!(b, "Open" | "WriteClosed") || (b == "ClosingRead" && !bms);
                    let did = (a == "ClosingRead" && ams) || a == "ReadClosed" || a == "BothClosed";
                    if ok && could && did {
                        self.s[i].unflushed.push_back(Kind::Stop);
                    }
                }
                _ => {}
            }
            let arrived = self.s[i].tx.lock().unwrap().arrived;
            let newly = arrived - self.s[i].arrived_seen;
            self.s[i].arrived_seen = arrived;
            for _ in 0..newly {
                if self.s[i].unflushed.pop_front().is_none() {
                    return Err(format!("HARNESS unflushed bookkeeping underflow :: side {side_name} {op:?} {before} -> {after}"));
                }
            }
        }
        Ok(())
    }
}

pub fn run(ctx: &Ctx) -> Outcome {
    let mut out = Outcome::default();
    let cfg = json!({"pair": "A,B", "max_queued": 3});
    if let Some(case) = &ctx.replay {
        out.evaluations = 1;
        if let Err(m) = bfs::replay_history(Sys::new(), case) {
            out.violation(bfs::signature_of(&m), m, case.clone());
        }
        return out;
    }
    let depth = ctx.tier.pick(6, 8);
    let (st, v) = bfs::bfs_replay(Sys::new, depth, ctx.tier.pick(400_000, 4_000_000));
    bfs::record(&mut out, &cfg, &st, &v);
    // vacuity guards: process-global counters filled by every executed operation
    let c = counters();
    out.count("ops_started_after_reset", c.ops_after_reset);
    out.count("pending_results", c.pending_results);
    out.count("writes_attempted_with_closed_half", c.writes_with_closed_half);
    out.count("reads_attempted_with_closed_half", c.reads_with_closed_half);
    out.count("data_reads", c.data_reads);
    out.count("writes_whose_half_was_closed_by_a_flag_consumed_during_the_call", c.writes_closed_during_op);
    if c.ops_after_reset == 0 || c.pending_results == 0 || c.writes_with_closed_half == 0 || c.reads_with_closed_half == 0 || c.data_reads == 0 || c.writes_closed_during_op == 0 {
        out.machinery(format!("vacuity: exploration did not exercise ops after reset / pending close / denied write / denied read / data read / write closed by a flag consumed during the call: {c:?}"));
    }
    let ddepth = ctx.tier.pick(4, 5);
    let (n, capped, v2) = bfs::dfs_all(Sys::new, ddepth, 8_000_000);
    out.count("dfs_companion_sequences", n);
    out.evaluations += n;
    out.traces += n;
    if capped {
        out.caps.push(format!("dfs companion capped at {n} sequences"));
    }
    bfs::record(&mut out, &cfg, &Default::default(), &v2);
    out.notes.push(format!("bfs depth {depth}, dfs companion depth {ddepth}"));
    out
}
