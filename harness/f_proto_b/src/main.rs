//! Family binary (checks are registered here).
mod c50;
mod c51;
mod c54;
mod c55;
mod c56;

fn main() {
    mc::main_dispatch(&[("C54", c54::run, c54::META), ("C56", c56::run, c56::META), ("C51", c51::run, c51::META), ("C50", c50::run, c50::META), ("C55", c55::run, c55::META)]);
}
