//! C55 — mDNS responses encode exactly the advertised addresses (E3: complete enumeration of
//! address lists over an alphabet of address shapes through the real `build_query_response`,
//! decoded by the real `MdnsPacket::new_from_bytes` / `MdnsResponse` / `MdnsPeer` and, as an
//! independent reader, by hickory; plus every single-byte mutation and truncation of
//! representative packets through the real parser: no panic).
//!
//! Oracle (statement): the multiset of addresses decoded from all packets equals the multiset of
//! advertised addresses whose TXT value `dnsaddr=<addr>/p2p/<peer>` is at most 255 bytes; every
//! decoded peer is the advertising peer; every packet is at most 9000 bytes. Addresses whose TXT
//! value is not ASCII may or may not be carried (the statement's "fit a single TXT string" does
//! not settle it; the builder drops them) — both accepted.

use kit::ids::peer;
use libp2p_mdns::Config;
use mc::{enumerate, json, Ctx, Meta, Outcome, Value};
use multiaddr::{Multiaddr, Protocol};
use std::net::SocketAddr;
use std::time::Duration;

pub const META: Meta = Meta {
    level: "exploration",
    rule: "every address list of length <= 3 (quick) / <= 4 (thorough) over 14 address shapes {ip4/tcp, ip6/udp/quic-v1, two relayed circuit addresses with an inner /p2p/<other peer> (dns4 and ip4/quic relay), dns4 plain, dns4 with space, with quote, with backslash, with space+quote+backslash, non-ASCII, plain names making the TXT value 254/255/256 bytes, 255-byte value full of backslashes with a space} plus n copies (n in 1,28,29,30,31,58,59,60; thorough also 87,88) of each shape, built by the real build_query_response and decoded by the real parser and by hickory; then every single-bit flip, 0x00/0xff/0xc0 overwrite and truncation of 15 representative packets through the real parser; then every byte string of length 0..3 (thorough 0..4) over {\", \\, =, d, n, s, a, r, /, space, 0x00, 0xff} as TXT character-string (alone, behind `dnsaddr=`, glued before/behind/quoted around a valid value, and as extra string next to valid ones) in a hand-built well-formed response through the real parser. Non-trivial = distinct lists with at least one advertised address, and distinct mutated packets that the parser rejects or that change the decoded peers.",
    explanation: "Complete enumeration (E3) over the stated alphabet; decoded multiset compared with the advertised multiset; packet size checked; parser panics caught.",
    assumptions: &["14 address shapes; DNS names without '/'", "peer name label is random: drawn from the entropy shim with a constant seed", "hickory-proto trusted as independent DNS reader"],
};

const NSHAPES: usize = 14;

fn txt_len(a: &Multiaddr) -> usize {
    format!("dnsaddr={}/p2p/{}", a, peer(1).to_base58()).len()
}

fn shape(i: usize) -> Multiaddr {
    let dns = |name: String| Multiaddr::empty().with(Protocol::Dns4(name.into())).with(Protocol::Tcp(1));
    match i {
        0 => "/ip4/10.0.0.1/tcp/4001".parse().unwrap(),
        1 => "/ip6/fe80::1/udp/4001/quic-v1".parse().unwrap(),
        2 => dns("plain.example".into()),
        3 => dns("with space".into()),
        4 => dns("with\"quote".into()),
        5 => dns("with\\backslash".into()),
        6 => dns("sp ace\"and\\both".into()),
        7 => dns("n\u{f6}n-ascii".into()),
        8..=10 => {
            // plain name such that the TXT value is 254 / 255 / 256 bytes long
            let target = 254 + (i - 8);
            let base = txt_len(&dns(String::new()));
            dns("a".repeat(target - base))
        }
        // relayed (circuit) addresses: they already contain an inner /p2p/<other peer>
        12 => Multiaddr::empty().with(Protocol::Dns4("relay.example.org".into())).with(Protocol::Tcp(4001)).with(Protocol::P2p(peer(2))).with(Protocol::P2pCircuit),
        13 => Multiaddr::empty().with(Protocol::Ip4(std::net::Ipv4Addr::new(10, 0, 0, 9))).with(Protocol::Udp(4001)).with(Protocol::QuicV1).with(Protocol::P2p(peer(3))).with(Protocol::P2pCircuit),
        _ => {
            let base = txt_len(&dns(String::new()));
            let mut name = "\\".repeat(255 - base - 1);
            name.push(' ');
            dns(name)
        }
    }
}

#[derive(Debug)]
struct Obs {
    packets: usize,
    max_packet: usize,
    decoded: usize,
    expected: usize,
}

fn from_addr() -> SocketAddr {
    "192.168.1.7:5353".parse().unwrap()
}

fn case(list: &[usize]) -> Result<Obs, String> {
    let me = peer(1);
    let addrs: Vec<Multiaddr> = list.iter().map(|i| shape(*i)).collect();
    let packets = mc::catch(|| Config::verif_build_query_response(0x1234, me, &addrs, Duration::from_secs(120))).map_err(|p| format!("build-panic :: {p}"))?;
    let mut must: Vec<String> = Vec::new();
    let mut may: Vec<String> = Vec::new();
    for a in &addrs {
        let v = format!("dnsaddr={}/p2p/{}", a, me.to_base58());
        if v.len() <= 255 {
            if v.is_ascii() {
                must.push(a.to_string());
            } else {
                may.push(a.to_string());
            }
        }
    }
    let mut decoded: Vec<String> = Vec::new();
    let mut max_packet = 0;
    for (k, p) in packets.iter().enumerate() {
        max_packet = max_packet.max(p.len());
        if p.len() > 9000 {
            return Err(format!("packet-exceeds-9000 :: packet {k} of {} is {} bytes for list {list:?}", packets.len(), p.len()));
        }
        // independent reader
        if let Err(e) = hickory_proto::op::Message::from_vec(p) {
            return Err(format!("response-packet-unparsable :: packet {k} of {} ({} bytes) for list {list:?} is not a valid DNS message for hickory: {e}", packets.len(), p.len()));
        }
        let peers = mc::catch(|| Config::verif_parse_packet(p, from_addr())).map_err(|pm| format!("parse-panic :: {pm}"))?;
        match peers {
            Ok(Some(peers)) => {
                for (id, addrs, _ttl) in peers {
                    if id != me {
                        return Err(format!("decoded-foreign-peer :: packet {k} attributes addresses to {id}"));
                    }
                    decoded.extend(addrs.iter().map(|a| a.to_string()));
                }
            }
            Ok(None) => return Err(format!("response-not-recognised :: packet {k} for list {list:?} is not parsed as a response")),
            Err(e) => return Err(format!("response-packet-rejected :: packet {k} for list {list:?} rejected by MdnsPacket::new_from_bytes: {e}")),
        }
    }
    must.sort();
    may.sort();
    decoded.sort();
    // decoded must contain `must` and may additionally contain elements of `may`
    let mut rest = decoded.clone();
    for m in &must {
        match rest.iter().position(|d| d == m) {
            Some(i) => {
                rest.remove(i);
            }
            None => {
                let class = if m.contains(' ') { "with-space" } else { "plain" };
                return Err(format!("advertised-address-not-decoded-{class} :: list {list:?}: {m:?} (TXT value {} bytes) was advertised but is not decoded; decoded {decoded:?}", m.len()));
            }
        }
    }
    for r in &rest {
        match may.iter().position(|d| d == r) {
            Some(i) => {
                may.remove(i);
            }
            None => return Err(format!("unexpected-address-decoded :: list {list:?}: decoded {r:?} which was not advertised (or exceeds one TXT string); advertised {must:?}")),
        }
    }
    Ok(Obs { packets: packets.len(), max_packet, decoded: decoded.len(), expected: must.len() })
}

fn mutate_all(pkt: &[u8], out: &mut Outcome, tag: &str) {
    let base = Config::verif_parse_packet(pkt, from_addr());
    let try_one = |bytes: &[u8], what: String, out: &mut Outcome| {
        out.evaluations += 1;
        match mc::catch(|| Config::verif_parse_packet(bytes, from_addr())) {
            Ok(r) => {
                if r != base {
                    out.nontrivial(&format!("{tag}{what}"));
                }
                *out.counters.entry(match &r { Err(_) => "mutants_rejected", Ok(None) => "mutants_not_a_response", Ok(Some(_)) => "mutants_parsed_as_response" }.to_string()).or_insert(0) += 1;
            }
            Err(p) => {
                let loc = mc::shim::last_panic_loc().unwrap_or_default();
                out.violation(format!("parse-panic at {loc}"), format!("parser panicked on mutated packet ({what}): {p}"), json!({"kind": "bytes", "bytes": bytes}));
            }
        }
    };
    for pos in 0..pkt.len() {
        let mut b = pkt.to_vec();
        for m in enumerate::BIT_MASKS {
            b[pos] = pkt[pos] ^ m;
            try_one(&b, format!("flip@{pos}^{m}"), out);
        }
        for v in [0x00u8, 0xff, 0xc0] {
            if pkt[pos] != v {
                b[pos] = v;
                try_one(&b, format!("set@{pos}={v}"), out);
            }
        }
    }
    for l in 0..pkt.len() {
        try_one(&pkt[..l], format!("trunc@{l}"), out);
    }
}

pub fn run(ctx: &Ctx) -> Outcome {
    let ctx = ctx.clone();
    // constant entropy seed: the random peer-name label (and with it packet lengths and the number
    // of mutation cases) must not depend on VERIF_SEED
    match mc::isolated(0, move || run_inner(&ctx)) {
        Ok(o) => o,
        Err(p) => {
            let mut o = Outcome::default();
            o.machinery(format!("check body panicked: {p}"));
            o
        }
    }
}

fn run_inner(ctx: &Ctx) -> Outcome {
    let mut out = Outcome::default();
    if let Some(c) = &ctx.replay {
        out.evaluations = 1;
        if c["kind"] == "txt" {
            let strings: Vec<Vec<u8>> = serde_json::from_value(c["strings"].clone()).unwrap_or_default();
            if let Err(m) = txt_case(&strings) {
                out.violation(mc::bfs::signature_of(&m), m, c.clone());
            }
        } else if c["kind"] == "bytes" {
            let bytes: Vec<u8> = serde_json::from_value(c["bytes"].clone()).unwrap_or_default();
            if let Err(p) = mc::catch(|| Config::verif_parse_packet(&bytes, from_addr())) {
                let loc = mc::shim::last_panic_loc().unwrap_or_default();
                out.violation(format!("parse-panic at {loc}"), format!("parser panicked: {p}"), c.clone());
            }
        } else {
            let list: Vec<usize> = serde_json::from_value(c["list"].clone()).unwrap_or_default();
            if let Err(m) = case(&list) {
                out.violation(mc::bfs::signature_of(&m), m, c.clone());
            }
        }
        return out;
    }
    let mut multi_packet = 0u64;
    let mut dropped_long = 0u64;
    let mut n_ok = 0u64;
    let mut do_case = |list: &[usize], out: &mut Outcome| {
        out.evaluations += 1;
        if !list.is_empty() {
            out.nontrivial(&format!("{list:?}"));
        }
        match case(list) {
            Ok(o) => {
                n_ok += 1;
                if o.packets > 1 {
                    multi_packet += 1;
                }
                if o.expected < list.iter().filter(|i| **i != 7).count() {
                    dropped_long += 1;
                }
                if n_ok % 211 == 1 || o.packets > 2 {
                    out.sample(json!({"list": list, "packets": o.packets, "max_packet_bytes": o.max_packet, "decoded": o.decoded, "expected": o.expected}));
                }
                out.max("max_packet_bytes", o.max_packet as u64);
            }
            Err(m) => {
                let c: Value = json!({"kind": "list", "list": list});
                out.violation(mc::bfs::signature_of(&m), m, c);
            }
        }
    };
    let maxlen = ctx.tier.pick(3, 4);
    enumerate::sequences_upto(NSHAPES, maxlen, |idx| do_case(idx, &mut out));
    let mut counts = vec![1usize, 28, 29, 30, 31, 58, 59, 60];
    if !ctx.quick() {
        counts.extend([87, 88]);
    }
    for s in 0..NSHAPES {
        for n in &counts {
            do_case(&vec![s; *n], &mut out);
        }
    }
    out.count("lists_spanning_several_packets", multi_packet);
    out.count("lists_with_address_beyond_one_txt_string", dropped_long);
    out.count("lists_roundtrip_ok", n_ok);
    if multi_packet == 0 || dropped_long == 0 || n_ok == 0 {
        out.machinery("vacuity: enumeration never produced a multi-packet response / an over-long address / a clean round trip");
    }
    // ---- fault enumeration on representative packets
    let mut reps: Vec<Vec<usize>> = (0..NSHAPES).map(|s| vec![s]).collect();
    reps.push(vec![0, 1, 2]);
    for (k, list) in reps.iter().enumerate() {
        let addrs: Vec<Multiaddr> = list.iter().map(|i| shape(*i)).collect();
        let pk = Config::verif_build_query_response(7, peer(1), &addrs, Duration::from_secs(120));
        mutate_all(&pk[0], &mut out, &format!("r{k}"));
    }
    if out.get("mutants_rejected") == 0 || out.get("mutants_parsed_as_response") == 0 {
        out.machinery("vacuity: mutations never produced both a rejected and an accepted packet");
    }
    // ---- structured enumeration of TXT character-strings inside a well-formed response
    let alpha: &[u8] = &[b'"', b'\\', b'=', b'd', b'n', b's', b'a', b'r', b'/', b' ', 0x00, 0xff];
    let maxlen = ctx.tier.pick(3, 4);
    let mut smalls: Vec<Vec<u8>> = Vec::new();
    enumerate::sequences_upto(alpha.len(), maxlen, |idx| smalls.push(idx.iter().map(|i| alpha[*i]).collect()));
    let valid = format!("dnsaddr=/ip4/10.0.0.1/tcp/4001/p2p/{}", peer(1).to_base58()).into_bytes();
    let valid_other = format!("dnsaddr=/ip4/10.0.0.2/tcp/4001/p2p/{}", peer(2).to_base58()).into_bytes();
    let mut txt_cases: Vec<Vec<Vec<u8>>> = Vec::new();
    for sm in &smalls {
        txt_cases.push(vec![sm.clone()]); // the string alone
        txt_cases.push(vec![[b"dnsaddr=".as_slice(), sm].concat()]); // behind the expected prefix
        if sm.len() <= 2 {
            txt_cases.push(vec![[valid.as_slice(), sm].concat()]); // glued to a valid value
            txt_cases.push(vec![[sm.as_slice(), &valid].concat()]);
            txt_cases.push(vec![[b"\"".as_slice(), &valid, sm].concat()]); // quoted forms
            txt_cases.push(vec![valid.clone(), sm.clone()]); // several strings in one TXT record
            txt_cases.push(vec![sm.clone(), valid.clone()]);
            txt_cases.push(vec![valid.clone(), sm.clone(), valid_other.clone()]);
        }
    }
    let mut with_addr = 0u64;
    let mut without_addr = 0u64;
    for (k, strings) in txt_cases.iter().enumerate() {
        out.evaluations += 1;
        match txt_case(strings) {
            Ok(n) => {
                if n > 0 {
                    with_addr += 1;
                    out.nontrivial(&format!("txt{strings:?}"));
                } else {
                    without_addr += 1;
                }
                if k % 1999 == 7 {
                    out.sample(json!({"kind": "txt", "strings": strings.iter().map(|s| String::from_utf8_lossy(s).to_string()).collect::<Vec<_>>(), "addresses_extracted": n}));
                }
            }
            Err(m) => {
                out.nontrivial(&format!("txt{strings:?}"));
                out.violation(mc::bfs::signature_of(&m), m, json!({"kind": "txt", "strings": strings}));
            }
        }
    }
    out.count("txt_cases_with_address_extracted", with_addr);
    out.count("txt_cases_without_address", without_addr);
    if with_addr == 0 || without_addr == 0 {
        out.machinery("vacuity: structured TXT enumeration never produced both an extracted address and a discarded string");
    }
    out
}

/// A well-formed mDNS response: PTR answer `_p2p._udp.local` -> N and one additional TXT record owned by N
/// whose rdata is the given sequence of character-strings (written here byte by byte, independent
/// of the crate's builder).
fn txt_packet(strings: &[Vec<u8>]) -> Vec<u8> {
    fn qname(out: &mut Vec<u8>, name: &str) {
        for l in name.split('.') {
            out.push(l.len() as u8);
            out.extend_from_slice(l.as_bytes());
        }
        out.push(0);
    }
    let mut o = Vec::new();
    o.extend_from_slice(&[0x12, 0x34, 0x84, 0x00, 0, 0, 0, 1, 0, 0, 0, 1]);
    qname(&mut o, "_p2p._udp.local");
    o.extend_from_slice(&[0x00, 0x0c, 0x00, 0x01, 0, 0, 0, 120]);
    let mut n = Vec::new();
    qname(&mut n, "verifpeername.local");
    o.extend_from_slice(&(n.len() as u16).to_be_bytes());
    o.extend_from_slice(&n);
    o.extend_from_slice(&n);
    o.extend_from_slice(&[0x00, 0x10, 0x80, 0x01, 0, 0, 0, 120]);
    let mut rd = Vec::new();
    for s in strings {
        rd.push(s.len() as u8);
        rd.extend_from_slice(s);
    }
    o.extend_from_slice(&(rd.len() as u16).to_be_bytes());
    o.extend_from_slice(&rd);
    o
}

/// reference reading of one character-string: optional surrounding quotes, `dnsaddr=` prefix,
/// multiaddr ending in /p2p/<peer>
fn reference_decode(cs: &[u8]) -> Option<(Multiaddr, libp2p_identity::PeerId)> {
    let inner: &[u8] = if cs.first() == Some(&b'"') {
        if cs.len() < 2 || cs.last() != Some(&b'"') {
            return None;
        }
        &cs[1..cs.len() - 1]
    } else {
        cs
    };
    let rest = inner.strip_prefix(b"dnsaddr=")?;
    let mut a: Multiaddr = std::str::from_utf8(rest).ok()?.parse().ok()?;
    match a.pop() {
        Some(Protocol::P2p(id)) => Some((a, id)),
        _ => None,
    }
}

/// Ok(number of extracted addresses) or the violation
fn txt_case(strings: &[Vec<u8>]) -> Result<usize, String> {
    if strings.iter().any(|s| s.len() > 255) {
        return Ok(0);
    }
    let pkt = txt_packet(strings);
    let shown: Vec<String> = strings.iter().map(|s| String::from_utf8_lossy(s).to_string()).collect();
    if let Err(e) = hickory_proto::op::Message::from_vec(&pkt) {
        return Err(format!("HARNESS structured packet not well-formed :: {shown:?}: {e}"));
    }
    let r = match mc::catch(|| Config::verif_parse_packet(&pkt, from_addr())) {
        Ok(r) => r,
        Err(p) => {
            let loc = mc::shim::last_panic_loc().unwrap_or_default();
            return Err(format!("parse-panic-on-txt-string at {loc} :: TXT character-strings {shown:?} ({strings:?}) in a well-formed response: {p}"));
        }
    };
    let peers = match r {
        Ok(Some(p)) => p,
        other => return Err(format!("well-formed-response-not-parsed :: TXT character-strings {shown:?}: parser answered {other:?}")),
    };
    let reference: Vec<(Multiaddr, libp2p_identity::PeerId)> = strings.iter().filter_map(|s| reference_decode(s)).collect();
    let mut n = 0;
    for (id, addrs, _) in &peers {
        for a in addrs {
            n += 1;
            if !reference.iter().any(|(ra, rid)| ra == a && rid == id) {
                return Err(format!("address-extracted-beyond-reference :: TXT character-strings {shown:?}: extracted {a} for {id}, which the reference decoder does not find"));
            }
        }
    }
    Ok(n)
}
