#!/usr/bin/env python3
"""Generate MANIFEST.json and harness/checks.map from tools/checks.json (the single table of
claimed checks) and tools/not_applicable.json. Properties that are in neither are listed under
not_applicable as 'not built yet'."""
import json, os, subprocess
R = os.path.dirname(os.path.dirname(os.path.abspath(__file__)))
import glob
checks = []
for f in sorted(glob.glob(f"{R}/tools/checks.d/*.json")):
    checks += json.load(open(f))
na = json.load(open(f"{R}/tools/not_applicable.json"))
props = [json.loads(l) for l in open(f"{R}/properties.jsonl")]
ids = [p["id"] for p in props]
hook_commits = []
try:
    log = subprocess.run(["git", "-C", "/repo", "log", "--format=%H %s"], capture_output=True, text=True).stdout
    hook_commits = [l.split()[0] for l in log.splitlines() if " verif-hook:" in l]
except Exception:
    pass
engines = {
    "E1": ("choice-sequence explorer (stateless deviation-bounded DFS over schedules / environment answers of the real code)", "harness/mc/src/choice.rs"),
    "E2": ("explicit-state BFS over action histories of the real code with canonical-state dedup + un-deduplicated DFS companion", "harness/mc/src/bfs.rs"),
    "E3": ("product / fault enumerators (complete enumeration of a bounded input or mutation space)", "harness/mc/src/enumerate.rs"),
    "E4": ("shuttle DFS over OS-thread interleavings", "harness/f_swarm"),
}
m = {
    "version": 1,
    "setup_cmd": "./check --setup",
    "hooks": {
        "guard": "--cfg libp2p_verif",
        "enable": "RUSTFLAGS='--cfg libp2p_verif' exported by ./check; the harness workspace depends on /repo's crates by path, so every check rebuilds from /repo's working tree",
        "baseline_off_cmd": "cd /repo && cargo nextest run --workspace --no-fail-fast --test-threads 8 --offline",
        "source_commits": hook_commits,
        "add_only": True,
    },
    "engines": [
        {"name": k, "path": v[1], "kind_free_text": v[0], "serves_properties": sorted(c["id"] for c in checks if k in c["engine"])} for k, v in engines.items()
    ],
    "checks": [],
    "notes": "All checks are bounded exhaustive exploration of the real implementation (no separate model): see DESIGN.md. Exit 2 = machinery error, never a verdict.",
    "not_applicable": [],
}
claimed = set()
lines = []
for c in sorted(checks, key=lambda c: c["id"]):
    claimed.add(c["id"])
    lines.append(f"{c['id']} {c['pkg']}")
    m["checks"].append({
        "property_id": c["id"],
        "quick_cmd": f"./check {c['id']} quick",
        "thorough_cmd": f"./check {c['id']} thorough",
        "evidence_file": f"/verif/evidence/{c['id']}.json",
        "replay_cmd_template": "./check --replay {path}",
        "engine": c["engine"],
        "level_claimed": {"category": c["level"], "text": c["text"], "design_ref": c.get("design_ref", "DESIGN.md §4 " + c["id"])},
        "level_note": c["note"],
        "technique": c["technique"],
    })
for i in ids:
    if i in claimed:
        continue
    m["not_applicable"].append({"property_id": i, "reason": na.get(i, "check not built yet (work in progress); not claimed")})
json.dump(m, open(f"{R}/MANIFEST.json", "w"), indent=1)
open(f"{R}/harness/checks.map", "w").write("\n".join(lines) + "\n")
print(f"claimed {len(claimed)} / {len(ids)}")
