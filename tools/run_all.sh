#!/bin/bash
# run_all.sh [quick|thorough] [ids...]: run every registered check once, print id, exit code and wall time
tier="${1:-quick}"; shift
ids="$@"; [ -z "$ids" ] && ids=$(awk '{print $1}' /verif/harness/checks.map)
cd /verif
for id in $ids; do
  s=$(date +%s.%N)
  out=$(./check $id $tier 2>&1); rc=$?
  e=$(date +%s.%N)
  printf "%s rc=%d %.1fs | %s\n" $id $rc $(echo "$e - $s" | bc) "$(echo "$out" | grep -E "^(C[0-9]+ (quick|thorough)|VIOLATION|KNOWN|MACHINERY)" | tail -2 | tr '\n' ' ' | cut -c1-260)"
done
