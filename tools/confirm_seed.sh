#!/bin/bash
# confirm_seed.sh <seed-out-dir> <crate> <demo-filter> [extra cargo test args]
# In a scratch git worktree of /repo: demo passes without the change, fails with it, and the
# crate's existing tests still pass with it. Writes <seed-out-dir>/confirm.log and prints a verdict.
d="$1"; crate="$2"; filter="$3"; shift 3
wt=/tmp/seed/confirm-wt-$$
export CARGO_TARGET_DIR=/tmp/seed/confirm-target CARGO_NET_OFFLINE=true
unset RUSTFLAGS
git -C /repo worktree add --detach -q $wt HEAD || exit 2
log="$d/confirm.log"; : > "$log"
cd $wt
( git apply "$d/demo.diff" ) >> "$log" 2>&1 || { echo "demo.diff does not apply" | tee -a "$log"; }
echo "== demo WITHOUT change" >> "$log"
cargo test --offline -p "$crate" "$@" -- "$filter" >> "$log" 2>&1; r_without=$?
git apply "$d/patch.diff" >> "$log" 2>&1 || { echo "VERDICT $d: patch.diff does not apply"; git -C /repo worktree remove --force $wt; exit 1; }
echo "== demo WITH change" >> "$log"
cargo test --offline -p "$crate" "$@" -- "$filter" >> "$log" 2>&1; r_with=$?
echo "== existing tests WITH change (demo excluded)" >> "$log"
cargo test --offline -p "$crate" -- --skip "$filter" >> "$log" 2>&1; r_suite=$?
echo "VERDICT $d: demo_without=$r_without (want 0) demo_with=$r_with (want !=0) suite_with=$r_suite (want 0)" | tee -a "$log"
grep -E "^test .* FAILED|failed" "$log" | sort -u | head -8
cd /; git -C /repo worktree remove --force $wt
