#!/bin/bash
# confirm_seed.sh <seed-out-dir> <crate> "<demo cargo-test args>" "<suite cargo-test args>"
# In a scratch git worktree of /repo: (1) the crate's existing tests pass with the change,
# (2) the demo fails with the change, (3) the demo passes without it. Writes <dir>/confirm.log.
d="$1"; crate="$2"; demo_args="$3"; suite_args="$4"
# CONFIRM_WT: a persistent worktree reused between confirmations (keeps mtimes, so cargo only
# rebuilds what a patch touched); default: a fresh one per run
wt=${CONFIRM_WT:-/tmp/seed/confirm-wt-$$}
export CARGO_TARGET_DIR=${CONFIRM_TARGET:-/tmp/seed/confirm-target} CARGO_NET_OFFLINE=true
unset RUSTFLAGS
if [ -n "$CONFIRM_WT" ] && [ -d "$wt/.git" -o -f "$wt/.git" ]; then
  ( cd $wt && git checkout -q -- . && git clean -fdq && git checkout -q --detach "$(git -C /repo rev-parse HEAD)" ) || exit 2
else
  git -C /repo worktree add --detach -q $wt HEAD || exit 2
fi
log="$d/confirm.log"; : > "$log"
cd $wt
git apply "$d/patch.diff" >> "$log" 2>&1 || { echo "VERDICT $d: patch.diff does not apply" | tee -a "$log"; cd /; [ -n "$CONFIRM_WT" ] || git -C /repo worktree remove --force $wt; exit 1; }
echo "== existing tests WITH change: cargo test -p $crate $suite_args" >> "$log"
cargo test --offline --no-fail-fast -p "$crate" $suite_args >> "$log" 2>&1; r_suite=$?
fails=$(grep -E "^test .* FAILED" "$log" | sort -u | tr '\n' ';')
git apply "$d/demo.diff" >> "$log" 2>&1 || echo "demo.diff does not apply" | tee -a "$log"
echo "== demo WITH change: cargo test -p $crate $demo_args" >> "$log"
cargo test --offline -p "$crate" $demo_args >> "$log" 2>&1; r_with=$?
git apply -R "$d/patch.diff" >> "$log" 2>&1
echo "== demo WITHOUT change" >> "$log"
cargo test --offline -p "$crate" $demo_args >> "$log" 2>&1; r_without=$?
echo "VERDICT $d: suite_with=$r_suite (want 0; failing: $fails) demo_with=$r_with (want !=0) demo_without=$r_without (want 0)" | tee -a "$log"
cd /; if [ -n "$CONFIRM_WT" ]; then ( cd $wt && git checkout -q -- . && git clean -fdq ); else git -C /repo worktree remove --force $wt; fi
