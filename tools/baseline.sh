#!/bin/bash
# Run the repository's baseline test-suite with the hook guard OFF and compare the set of passing
# tests with BASELINE.json's stable_pass. Usage: tools/baseline.sh [repo-dir]   (default /repo)
R="${1:-/repo}"
unset RUSTFLAGS
cd "$R" || exit 2
cargo nextest run --workspace --no-fail-fast --tool-config-file pb:/w/lib/nextest.toml --profile pb --test-threads 8 --offline > /tmp/baseline-run.log 2>&1
python3 - "$R" <<'PY'
import json, sys, xml.etree.ElementTree as ET
R = sys.argv[1]
base = set(json.load(open('/root/.vp/BASELINE.json'))['stable_pass'])
passed, failed = set(), set()
root = ET.parse(f'{R}/target/nextest/pb/junit.xml').getroot()
for tc in root.iter('testcase'):
    tid = (tc.get('classname') or '') + '::' + (tc.get('name') or '')
    if tc.find('failure') is not None or tc.find('error') is not None or tc.find('flakyFailure') is not None:
        failed.add(tid)
    elif tc.find('skipped') is None:
        passed.add(tid)
passed -= failed
missing = sorted(base - passed)
print(f"baseline: {len(base)} stable tests, {len(passed)} passed now, {len(missing)} stable tests NOT passing")
for m in missing[:40]:
    print("  MISSING", m, "(failed)" if m in failed else "(not run)")
sys.exit(1 if missing else 0)
PY
