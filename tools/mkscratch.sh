#!/bin/bash
# mkscratch.sh <dir> [patch.diff]: make / refresh a scratch copy of /repo's working tree. On first
# creation mtimes are preserved (so a target dir seeded from the main one rebuilds only what a
# patch touches); on refresh, files that changed are touched (cargo's fingerprints are mtime based).
set -e
d="${1:?dir}"
fresh=0; [ -d "$d" ] || fresh=1
mkdir -p "$d"
changed=$(rsync -ai --delete --exclude /target --exclude /.git --exclude /.verif-target --exclude /.verif-out /repo/ "$d/" | awk '$1 ~ /^>f/ {print $2}')
if [ $fresh -eq 0 ] && [ -n "$changed" ]; then ( cd "$d" && echo "$changed" | xargs -r touch ); fi
if [ -n "${2:-}" ]; then ( cd "$d" && git apply --unsafe-paths "$2" 2>/dev/null || patch -p1 < "$2" ); fi
echo "$d"
