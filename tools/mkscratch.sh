#!/bin/bash
# mkscratch.sh <dir> [patch.diff]: make a scratch copy of /repo's working tree (mtimes preserved,
# so cargo rebuilds only what the patch touches), optionally apply a patch. Remove with rm -rf.
set -e
d="${1:?dir}"
mkdir -p "$d"
rsync -a --exclude /target --exclude /.git --exclude /.verif-target --exclude /.verif-out /repo/ "$d/"
if [ -n "${2:-}" ]; then ( cd "$d" && git apply --unsafe-paths "$2" 2>/dev/null || patch -p1 < "$2" ); fi
echo "$d"
