#!/usr/bin/env python3
"""keep_seed.py <id> <src-out-dir> <needs> <detection>: store a confirmed seeded change under /verif/seeded/<id>/"""
import sys, os, shutil, json, re
name, src, needs, detection = sys.argv[1:5]
pid = name.split("-")[0]          # "C01-r2" is a second seed for property C01
dst = f"/verif/seeded/{name}"
os.makedirs(dst, exist_ok=True)
for f in ["patch.diff", "demo.diff", "README.md", "confirm.log"]:
    if os.path.exists(f"{src}/{f}"):
        shutil.copy(f"{src}/{f}", f"{dst}/{f}")
verdict = ""
if os.path.exists(f"{src}/confirm.log"):
    for l in open(f"{src}/confirm.log", errors="replace"):
        if l.startswith("VERDICT"):
            verdict = l.strip().split(": ", 1)[1]
# trim the confirm log (full cargo output is large)
if os.path.exists(f"{dst}/confirm.log"):
    lines = open(f"{dst}/confirm.log", errors="replace").read().splitlines()
    keep = [l for l in lines if l.startswith("==") or l.startswith("VERDICT") or l.startswith("test result") or "FAILED" in l or "panicked" in l]
    open(f"{dst}/confirm.log", "w").write("\n".join(keep[:200]) + "\n")
files = sorted(set(re.findall(r"^\+\+\+ b/(\S+)", open(f"{src}/patch.diff").read(), re.M)))
meta = {
    "property": pid,
    "origin": "written by a fresh sub-agent that was given only the property text and its own scratch git worktree of /repo (nothing from /verif)",
    "files_changed": files,
    "needs_to_manifest": needs,
    "confirmed_by_coordinator": {
        "how": "tools/confirm_seed.sh in a scratch git worktree: existing tests of the touched crate with the change, demonstration with the change, demonstration without the change",
        "result": verdict,
    },
    "check_result": detection,
    "run": f"tools/mkscratch.sh /tmp/sc; (cd /tmp/sc && git apply /verif/seeded/{name}/patch.diff); VERIF_REPO=/tmp/sc ./check {pid} quick   # expected: exit 1",
}
json.dump(meta, open(f"{dst}/meta.json", "w"), indent=1)
print(dst, verdict)
