#!/bin/bash
# regress_seeds.sh <scratch> [pattern]: run the quick check of every stored seeded change against its
# patch (in a scratch copy) and report those that are no longer caught. Expected: every line rc=1.
sc="${1:-/tmp/sc-seed}"; pat="${2:-*}"
for d in /verif/seeded/$pat/; do
  n=$(basename $d); id=${n%%-*}
  r=$(/verif/tools/try_seed.sh "$sc" "$id" "$d/patch.diff" 2>&1 | tail -1 | cut -c1-160)
  echo "$n :: $r"
done
