#!/bin/bash
# try_seed.sh <scratch> <id> <patch> [tier]: apply patch in scratch copy, run ./check id, reverse the patch
sc="$1"; id="$2"; patch="$3"; tier="${4:-quick}"
/verif/tools/mkscratch.sh "$sc" >/dev/null
( cd "$sc" && git apply --unsafe-paths "$patch" && grep "^+++ b/" "$patch" | sed "s,^+++ b/,," | xargs -r touch ) || { echo "$id: patch does not apply"; exit 2; }
out=$(cd /verif && VERIF_REPO="$sc" timeout 3000 ./check "$id" "$tier" 2>&1); rc=$?
( cd "$sc" && git apply -R --unsafe-paths "$patch" && grep "^+++ b/" "$patch" | sed "s,^+++ b/,," | xargs -r touch )
echo "$id [$tier] rc=$rc :: $(echo "$out" | grep -E "violation \[|MACHINERY|^error" | head -3 | cut -c1-300)"
