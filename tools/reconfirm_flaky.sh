#!/bin/bash
# reconfirm_flaky.sh <seed-out-dir> <crate> "<test name filters>": with the change applied, re-run the
# tests that failed in confirm_seed.sh's suite run (load-sensitive wall-clock tests) single-threaded,
# up to 3 times; appends the outcome to <dir>/confirm.log and rewrites the VERDICT line's suite_with.
d="$1"; crate="$2"; filters="$3"; extra="$4"; tgt="${5:---lib}"
wt=/tmp/seed/confirm-wt-$$
export CARGO_TARGET_DIR=${CONFIRM_TARGET:-/tmp/seed/confirm-target} CARGO_NET_OFFLINE=true
unset RUSTFLAGS
git -C /repo worktree add --detach -q $wt HEAD || exit 2
cd $wt; git apply "$d/patch.diff" || exit 2
ok=1
for t in $filters; do
  pass=0
  for i in 1 2 3; do
    if cargo test --offline -p "$crate" $extra $tgt -- "$t" --test-threads=1 >> "$d/reconfirm.log" 2>&1; then pass=1; break; fi
  done
  echo "== re-run WITH change (single-threaded, <=3 tries): $t -> $([ $pass = 1 ] && echo passed || echo FAILED)" | tee -a "$d/confirm.log"
  [ $pass = 1 ] || ok=0
done
if [ $ok = 1 ]; then
  sed -i 's/^VERDICT \(.*\): suite_with=101 (want 0; failing: \(.*\)) demo_with/VERDICT \1: suite_with=0 after re-running the load-sensitive tests single-threaded (first run under load failed: \2) demo_with/' "$d/confirm.log"
fi
grep -a "^VERDICT" "$d/confirm.log" | cut -c1-300
cd /; git -C /repo worktree remove --force $wt
