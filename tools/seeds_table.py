#!/usr/bin/env python3
"""Print the markdown table of seeded changes (for DESIGN.md §9.6) from /verif/seeded/*/meta.json"""
import json, glob, os
rows = []
for d in sorted(glob.glob("/verif/seeded/*")):
    m = json.load(open(f"{d}/meta.json"))
    name = os.path.basename(d)
    first = "missed at first" if m["check_result"].startswith(("missed", "first run")) else "caught as it stood"
    rows.append((name, ", ".join(os.path.basename(f) for f in m["files_changed"]), first, m["check_result"].split(": ", 1)[-1] if ": " in m["check_result"] else m["check_result"]))
print("| seed | file(s) changed | first run | how the check reports it now |")
print("|---|---|---|---|")
for r in rows:
    print(f"| {r[0]} | {r[1]} | {r[2]} | {r[3][:230]} |")
n_missed = sum(1 for r in rows if r[2].startswith("missed"))
print(f"\n{len(rows)} seeded changes kept; {len(rows)-n_missed} were caught by the check as it stood, {n_missed} were missed at first and led to a strengthened check (all are caught now).")
