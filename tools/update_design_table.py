#!/usr/bin/env python3
"""Regenerate the seeds table between the markers in DESIGN.md"""
import subprocess, re
t = subprocess.run(["python3", "/verif/tools/seeds_table.py"], capture_output=True, text=True).stdout
p = "/verif/DESIGN.md"
s = open(p).read()
if "SEEDS_TABLE" in s:
    s = s.replace("SEEDS_TABLE", "<!-- seeds-table-begin -->\n" + t + "<!-- seeds-table-end -->")
else:
    s = re.sub(r"<!-- seeds-table-begin -->.*?<!-- seeds-table-end -->", lambda m: "<!-- seeds-table-begin -->\n" + t + "<!-- seeds-table-end -->", s, flags=re.S)
open(p, "w").write(s)
