#!/usr/bin/env python3
"""Print the prompt for a seeding sub-agent: only the property text(s) and a scratch worktree."""
import json, sys
args = sys.argv[1:]
round2 = "--round2" in args
round3 = "--round3" in args
ids = [a for a in args if not a.startswith("--")]
props = {json.loads(l)["id"]: json.loads(l) for l in open("/verif/properties.jsonl")}
name = "-".join(ids) + ("-r3" if round3 else "-r2" if round2 else "")
out = []
out.append(f"""You are helping evaluate a verification effort for the Rust project rust-libp2p. Your task: for each property below, craft ONE realistic source change ("seeded defect") to rust-libp2p that BREAKS the property while the code still compiles and the project's existing tests still pass, plus a demonstration (a test or small program) that fails with your change and passes without it.

Work ONLY inside your own scratch git worktree (create it first):
    git -C /repo worktree add --detach /tmp/seed/{name}/wt HEAD
    export CARGO_TARGET_DIR=/tmp/seed/{name}/target CARGO_NET_OFFLINE=true
Never edit anything under /repo itself or under /verif, and do not read /verif (the point is that your change is independent of what the verification machinery there already detects). The sandbox is offline; only crates already cached are available (`cargo test --offline`). Do not set RUSTFLAGS and ignore any `verif_*.rs` files / `cfg(libp2p_verif)` items in the tree (they are inert instrumentation).

Requirements for each change:
* It must be the kind of mistake a developer could plausibly make (an off-by-one, a check on the wrong side of an update, bookkeeping skipped on one path, a cursor advanced too early, a condition weakened, two sites that each look fine alone, ...), NOT something ordinary use exposes at once. It should need something specific to manifest: a particular interleaving, a fault at a particular point, a multi-step sequence of operations, an unusual input, or a specific configuration.
* Small: a few lines in the library source (not in tests, not in `verif_*` files).
* The crate must still compile and the EXISTING tests of the crate(s) you touched (and of obviously dependent crates, if cheap) must still pass with the change: run them (`cargo test --offline -p <crate>`; a few tests in this sandbox fail even without changes because they need the network — compare with a run without your change if in doubt) and record the commands and results.
* The demonstration must use the real code (a new `#[test]` in the crate, an integration test file, or a tiny example program); it must FAIL (assertion/panic/wrong output) with the change applied and PASS on the unchanged tree. Run it both ways and record the output.

Deliver, per property id, a directory /tmp/seed/{name}/out/<id>/ containing:
  patch.diff   — `git diff` of the library change only (apply-able with `git apply` from the repository root)
  demo.diff    — `git diff`/new files of the demonstration only (or demo files + a RUN.txt saying where they go and how to run)
  README.md    — which property, what the change does, exactly what is needed for it to manifest (sequence / interleaving / input / configuration), the commands you ran and their results (existing tests with the change: pass; demo with change: FAIL; demo without: PASS)
When finished, remove your worktree and build output (git -C /repo worktree remove --force /tmp/seed/{name}/wt; rm -rf /tmp/seed/{name}/target) but keep /tmp/seed/{name}/out. Your final message: one short paragraph per property (what you changed, what it needs to manifest, where the files are). If you cannot produce a valid change for a property within about 45 minutes, say so and move on.

The properties:
""")
for i in ids:
    p = props[i]
    out.append(f"""### {p['id']} — {p['title']}
Statement: {p['statement']}
Quantified over: {p['quantifier']['text']}
Relevant source files: {', '.join(p['anchors']['files'])}
Mechanisms in the code meant to make it hold: {'; '.join(m['name'] + ' (' + m.get('where','') + ')' for m in p['anchors']['mechanism'])}
""")
    if round3:
        import os
        prev = []
        for sfx in ["", "-r2"]:
            mp = f"/verif/seeded/{i}{sfx}/meta.json"
            if os.path.exists(mp):
                m = json.load(open(mp))
                prev.append(f"- touched {', '.join(m['files_changed'])}; needed: {m['needs_to_manifest']}")
        out.append("Other engineers have already seeded this property twice. Your change must be DIFFERENT IN KIND from both: do not touch the same code sites, do not rely on the same triggers, and if the statement has several clauses prefer a clause neither of them broke (or the same clause reached through a different public entry point, configuration or composition). The earlier changes:\n" + "\n".join(prev) + "\n")
    elif round2:
        import os
        mp = f"/verif/seeded/{i}/meta.json"
        if os.path.exists(mp):
            m = json.load(open(mp))
            out.append(f"""Another engineer has already seeded this property once. Your change must be DIFFERENT IN KIND: do not touch the same code site and do not rely on the same trigger. The earlier change touched {', '.join(m['files_changed'])} and needed: {m['needs_to_manifest']}
""")
print("\n".join(out))
